#!/bin/bash
# development helper: run every registered quick (or $1=thorough) check, validate evidence
cd "$(dirname "$0")/.." || exit 2
tier=${1:-quick}; rc=0
for i in $(seq -w 1 20); do
  out=$(./check C$i --tier $tier 2>&1); code=$?
  echo "$out" | grep -E "^(VIOLATION|KNOWN-FINDING|harness)" | cut -c1-160
  echo "$out" | tail -1
  [ $code -ne 0 ] && { echo "  ^^ exit $code"; rc=1; }
done
/venv/bin/python - <<'PY'
import json, jsonschema, glob
sch = json.load(open('/root/.vp/EVIDENCE.schema.json'))
for f in sorted(glob.glob('evidence/C*.json')):
    jsonschema.validate(json.load(open(f)), sch)
print("all evidence files valid")
PY
exit $rc
