#!/venv/bin/python
"""tools/seed_matrix.py [--seeds 1,2,3] [--jobs 4] [--only substr]
For every seeded change and every VERIF_SEED value: apply the patch in a scratch worktree of /repo (under /tmp, removed afterwards),
run the property's quick check against it (VERIF_REPO / VERIF_OUT point into the scratch area) and record whether it was detected.
Writes seeded/MATRIX.txt (development helper; /repo's working tree is not touched)."""
import argparse
import glob
import json
import os
import shutil
import subprocess
import sys
from concurrent.futures import ThreadPoolExecutor

ROOT = os.path.dirname(os.path.dirname(os.path.abspath(__file__)))


def work(job):
    slot, items, seeds = job
    wt = f"/tmp/vfmatrix_{slot}"
    subprocess.run(["git", "-C", "/repo", "worktree", "remove", "--force", wt], capture_output=True)
    subprocess.run(["git", "-C", "/repo", "worktree", "add", "-q", "--detach", wt, "HEAD"], check=True, capture_output=True)
    out = []
    try:
        for d in items:
            name = os.path.basename(d)
            pid = name[:3]
            r = subprocess.run(["git", "-C", wt, "apply", os.path.join(d, "patch.diff")], capture_output=True, text=True)
            if r.returncode:
                out.append((name, {s: "patch-failed" for s in seeds}))
                continue
            res = {}
            for s in seeds:
                env = dict(os.environ, VERIF_REPO=wt, VERIF_OUT=f"{wt}/_vo", VERIF_SEED=str(s))
                p = subprocess.run([os.path.join(ROOT, "check"), pid, "--tier", "quick"], capture_output=True, text=True, env=env, cwd=ROOT)
                res[s] = "detected" if p.returncode == 1 and "VIOLATION property=" in p.stdout else f"MISSED(exit {p.returncode})"
            out.append((name, res))
            subprocess.run(["git", "-C", wt, "checkout", "--", "."], capture_output=True)
            shutil.rmtree(f"{wt}/_vo", ignore_errors=True)
            print(name, res, flush=True)
    finally:
        subprocess.run(["git", "-C", "/repo", "worktree", "remove", "--force", wt], capture_output=True)
    return out


def main():
    ap = argparse.ArgumentParser()
    ap.add_argument("--seeds", default="2,3")
    ap.add_argument("--jobs", type=int, default=4)
    ap.add_argument("--only")
    a = ap.parse_args()
    seeds = [int(x) for x in a.seeds.split(",")]
    dirs = sorted(glob.glob(os.path.join(ROOT, "seeded", "C*-agent*")))
    if a.only:
        dirs = [d for d in dirs if a.only in os.path.basename(d)]
    jobs = [(i, dirs[i::a.jobs], seeds) for i in range(a.jobs)]
    with ThreadPoolExecutor(a.jobs) as ex:
        rows = sorted(r for chunk in ex.map(work, jobs) for r in chunk)
    lines = [f"# detection of every seeded change by ./check CNN --tier quick at VERIF_SEED in {seeds} (tools/seed_matrix.py)"]
    for name, res in rows:
        oos = json.load(open(os.path.join(ROOT, "seeded", name, "meta.json"))).get("in_scope") is False
        lines.append(f"{name}: " + " ".join(f"seed{s}={v}" for s, v in res.items()) + ("  (outside the property's scope, see DESIGN 10.5b)" if oos else ""))
    missed = [l for l in lines[1:] if "MISSED" in l and "outside the property" not in l]
    lines.append(f"# {len(rows)} changes x {len(seeds)} seeds; in-scope rows with a miss: {len(missed)}")
    if not a.only:
        open(os.path.join(ROOT, "seeded", "MATRIX.txt"), "w").write("\n".join(lines) + "\n")
    print("\n".join(missed) or "no misses")


if __name__ == "__main__":
    sys.exit(main())
