#!/bin/bash
# tools/coverage.sh : line coverage of /repo/ECAgent reached by all quick checks together (development helper; single shard per check)
rm -rf /tmp/vfcov && mkdir /tmp/vfcov && cat > /tmp/vfcov/rc <<'RC'
[run]
source = /repo/ECAgent
parallel = True
concurrency = multiprocessing
data_file = /tmp/vfcov/data
RC
cd "$(dirname "$0")/.." || exit 2
for i in $(seq -w 1 20); do
  PYTHONHASHSEED=0 VERIF_REPO=/repo PYTHONDONTWRITEBYTECODE=1 ECAGENT_VERIF=1 PYTHONPATH=/repo:$PWD VERIF_OUT=/tmp/vfcov/out \
    /venv/bin/python -m coverage run --rcfile=/tmp/vfcov/rc -m vf.cli C$i --jobs 1 --tier quick > /dev/null 2>&1
done
/venv/bin/python -m coverage combine --rcfile=/tmp/vfcov/rc > /dev/null 2>&1
/venv/bin/python -m coverage report --rcfile=/tmp/vfcov/rc --show-missing
rm -rf /tmp/vfcov
