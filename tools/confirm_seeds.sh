#!/bin/bash
# For every /verif/seeded/CNN*/patch.diff: apply to /repo, run the repo suite + the demo + the property's quick check, undo.
# Writes seeded/<dir>/confirm.txt. /repo must be clean before and is clean after.
cd /verif || exit 2
[ -n "$(git -C /repo status --porcelain)" ] && { echo "/repo not clean"; exit 2; }
for d in seeded/*/; do
  d=${d%/}; pid=$(basename $d | cut -c1-3)
  [ -n "$1" ] && [ "$1" != "$(basename $d)" ] && continue
  {
    echo "== $(basename $d) ($(date -u +%FT%TZ)), /repo at $(git -C /repo rev-parse --short HEAD)"
    echo "-- demo on the unchanged tree:"; PYTHONPATH=/repo /venv/bin/python $d/demo.py 2>&1 | tail -1; echo "   exit ${PIPESTATUS[0]}"
    git -C /repo apply "$PWD/$d/patch.diff" || { echo "PATCH DOES NOT APPLY"; continue; }
    echo "-- repository suite with the change:"; (cd /repo && /venv/bin/python -m pytest -q -p no:cacheprovider -W ignore --timeout=120 2>&1 | tail -1)
    echo "-- demo with the change:"; PYTHONPATH=/repo /venv/bin/python $d/demo.py > /tmp/_demo.out 2>&1; echo "   exit $? ($(tail -1 /tmp/_demo.out | cut -c1-120))"
    echo "-- ./check $pid --tier quick with the change:"
    VERIF_OUT=/tmp/_seedconfirm ./check $pid --tier quick 2>&1 | grep -a -E "^(  \[|VIOLATION|$pid )" | cut -c1-300; echo "   exit ${PIPESTATUS[0]}"
    git -C /repo checkout -- . ; rm -rf /tmp/_seedconfirm /tmp/_demo.out
    echo "-- /repo restored: $(git -C /repo status --porcelain | wc -l) modified files"
  } > $d/confirm.txt 2>&1
  echo "$(basename $d): $(grep -c '^VIOLATION' $d/confirm.txt) violation line(s); suite: $(grep -A1 'suite with' $d/confirm.txt | tail -1)"
done
