#!/venv/bin/python
"""Regenerates MANIFEST.json from the property modules present under vf/props (development helper)."""
import json
import os
import re

ROOT = os.path.dirname(os.path.dirname(os.path.abspath(__file__)))
props = [json.loads(l) for l in open(os.path.join(ROOT, "properties.jsonl"))]
have = {f[:-3].upper() for f in os.listdir(os.path.join(ROOT, "vf", "props")) if re.fullmatch(r"c\d+\.py", f)}
meta = json.load(open(os.path.join(ROOT, "tools", "manifest_meta.json")))

checks, na = [], []
for p in props:
    pid = p["id"]
    if pid not in have:
        na.append({"property_id": pid, "reason": "check not built yet (planned: see DESIGN.md section 5)"})
        continue
    m = meta.get(pid, {})
    checks.append({
        "property_id": pid,
        "quick_cmd": f"./check {pid} --tier quick",
        "thorough_cmd": f"./check {pid} --tier thorough",
        "evidence_file": f"/verif/evidence/{pid}.json",
        "replay_cmd_template": f"./check {pid} --replay {{path}}",
        "engine": "vf",
        "level_claimed": {"category": m.get("category", "exploration"), "text": m["text"], "design_ref": f"DESIGN.md section 5 ({pid})"},
        "level_note": m["note"],
        "technique": m["technique"],
    })

manifest = {
    "version": 1,
    "setup_cmd": "/venv/bin/pip install --no-index --find-links /opt/veriftools/wheels hypothesis >/dev/null 2>&1; /venv/bin/python -c \"import hypothesis, numpy, pandas; print('setup ok: hypothesis', hypothesis.__version__)\"",
    "hooks": {
        "guard": "ECAGENT_VERIF",
        "enable": "no source hooks exist: every observation goes through ECAgent's public API; checks import the working tree named by VERIF_REPO (default /repo) in a fresh interpreter (pure Python, nothing to build)",
        "baseline_off_cmd": "cd /repo && /venv/bin/python -m pytest -ra -q -p no:cacheprovider --timeout=900 --continue-on-collection-errors",
        "source_commits": [],
        "add_only": True,
    },
    "engines": [{"name": "vf", "path": "vf/", "serves_properties": sorted(have),
                 "kind_free_text": "Hypothesis-driven generated cases (programs as JSON data) interpreted against the real code and an independent reference model; exhaustive enumeration of small finite boxes; collect-then-shrink with structural ddmin; replay files"}],
    "checks": checks,
    "not_applicable": na,
    "notes": "See DESIGN.md. KNOWN_FINDINGS.txt lists open findings (printed as KNOWN-FINDING lines, exit 0) and fixed defects. mutants/ holds the sensitivity audit, seeded/ the independently written breaking changes.",
}
with open(os.path.join(ROOT, "MANIFEST.json"), "w") as fh:
    json.dump(manifest, fh, indent=1)
print(f"{len(checks)} checks, {len(na)} not applicable")
