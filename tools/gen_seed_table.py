#!/venv/bin/python
"""Regenerates the table of DESIGN.md section 10.5 from seeded/*/meta.json and confirm.txt (development helper).
Replaces the text between the markers <!-- seeded-table-begin --> and <!-- seeded-table-end -->."""
import glob
import json
import os
import re

ROOT = os.path.dirname(os.path.dirname(os.path.abspath(__file__)))
rows = []
for d in sorted(glob.glob(os.path.join(ROOT, "seeded", "C*-agent*"))):
    m = json.load(open(os.path.join(d, "meta.json")))
    conf = open(os.path.join(d, "confirm.txt")).read() if os.path.exists(os.path.join(d, "confirm.txt")) else ""
    sigs = sorted(set(re.findall(r"^  \[([^\]]+)\]", conf, re.M)))
    detected = "VIOLATION property=" in conf
    oos = m.get("in_scope") is False
    rows.append((os.path.basename(d), m["needs_to_manifest"],
                 ", ".join(sigs) if detected else ("not detected - outside the property's stated scope (10.5b)" if oos else "**NOT DETECTED**"),
                 "yes" if m["caught_before_strengthening"] else "no - " + (m.get("strengthening") or "")))
n = len(rows)
first = sum(1 for r in rows if r[3] == "yes")
det = sum(1 for r in rows if "not detected" not in r[2].lower())
nos = sum(1 for r in rows if "outside the property" in r[2])
out = [f"{n} seeded changes, {det} detected by the committed quick tier, {first} of them already by the check as it stood when the "
       f"change arrived, {det - first} after strengthening; {nos} need an operation outside the property's stated scope and are deliberately "
       f"not chased (10.5b); {n - det - nos} in-scope changes are undetected.", "",
       "| seeded change | what it needs to manifest | caught by `./check CNN` (signatures) | caught by the check as it was before this change was seen? |",
       "|---|---|---|---|"]
out += ["| `%s` | %s | %s | %s |" % r for r in rows]
p = os.path.join(ROOT, "DESIGN.md")
s = open(p).read()
b, e = "<!-- seeded-table-begin -->", "<!-- seeded-table-end -->"
if b in s:
    s = s[:s.index(b) + len(b)] + "\n" + "\n".join(out) + "\n" + s[s.index(e):]
    open(p, "w").write(s)
print(f"{n} rows, {det} detected, {first} at first sight")
