#!/bin/bash
# tools/try_seed.sh CNN [worktree]  - confirm a seeded change (suite passes, demo fails with / passes without) and run the check
pid=$1; wt=${2:-/tmp/seed_$pid}
cd "$wt" || exit 2
echo "== $pid: $(git diff --stat -- ECAgent | tail -1)"
s=$(PYTHONPATH=$wt /venv/bin/python -m pytest -q -p no:cacheprovider -W ignore --timeout=120 tests 2>&1 | tail -1); echo "suite with change: $s"
PYTHONPATH=$wt timeout 300 /venv/bin/python _out/demo.py > /tmp/demo_$pid.with 2>&1; echo "demo with change: exit $? ($(tail -1 /tmp/demo_$pid.with | cut -c1-100))"
git apply -R _out/patch.diff && { PYTHONPATH=$wt timeout 300 /venv/bin/python _out/demo.py > /tmp/demo_$pid.without 2>&1; echo "demo without change: exit $? ($(tail -1 /tmp/demo_$pid.without | cut -c1-60))"; git apply _out/patch.diff; }
cd /verif
out=$(VERIF_REPO=$wt VERIF_OUT=/tmp/seedout_$pid ./check $pid 2>&1); code=$?
echo "$out" | grep -a -E "^  \[" | cut -c1-260 | head -4
echo "$out" | tail -1
echo "check exit $code"
rm -f /tmp/demo_$pid.with /tmp/demo_$pid.without
