#!/bin/bash
# tools/eval_round.sh <round> : evaluate every /tmp/seed<round>_CNN worktree (development helper)
r=$1
for i in $(seq -w 1 20); do
  p=C$i; wt=/tmp/seed${r}_$p
  [ -f $wt/_out/patch.diff ] || { echo "$p: no patch yet"; continue; }
  out=$(tools/try_seed.sh $p $wt 2>&1)
  suite=$(echo "$out" | grep -a "suite with" | grep -c "110 passed")
  dw=$(echo "$out" | grep -a "demo with change" | grep -c "exit 1")
  dwo=$(echo "$out" | grep -a "demo without" | grep -c "exit 0")
  code=$(echo "$out" | grep -a "check exit" | awk '{print $3}')
  sig=$(echo "$out" | grep -a -E "^  \[" | head -2 | cut -c1-150 | tr '\n' ' ')
  echo "$p: suite_ok=$suite demo_fails_with=$dw demo_passes_without=$dwo check_exit=$code $sig"
done
