"""C20 - class components and default tags belong to exactly one agent class."""
from hypothesis import strategies as st

from ECAgent.Core import Agent, Environment, Model, ComponentNotFoundError
from ECAgent.Environments import SpaceWorld
from vf.engine import Violation, InvalidCase
from vf.fixtures import maybe_complete, with_done, CompA, CompB, CompC, CompD, CompF, check, expect_raises, sized_lists, wone_of

PROPERTY = "C20"
BUDGET = {"quick": 4000, "thorough": 12000}
RULE = ("A fresh class tree per case (2-7 classes created with type() under Agent / Environment / SpaceWorld: siblings, "
        "2-3 levels; further subclasses are created MID-history, after their ancestors were modified); in ~25% of cases the shared Agent and Environment classes are mutated too (restored afterwards). "
        "History (1-30 ops) of add/remove_class_component, Cls.tag = v, instance creation with/without explicit tag "
        "(environment classes through their own constructors), instance-level add_component, incl. duplicate attach and "
        "absent detach. Oracle = per-class component map + default tag model; after EVERY op EVERY class (incl. the "
        "untouched bases) and EVERY instance is compared: Cls[T], T in Cls, has_class_component (all-of), len(Cls), Cls.tag, "
        "instance.tag, instance.components. Non-trivial: a class-level change on a class that has a parent/child/sibling "
        "in the tree AND an instance of a non-base class created without explicit tag after that class' default tag "
        "changed. Distinct = digest of the case."
        " Added in rounds 19-24: classes re-created from another class's namespace; the model may be marked complete; the first class of a tree may be a plug-in style base whose __init_subclass__ does not chain up.")
ASSUMPTIONS = ["a class created later starts with no class components and default tag NONE (0), whatever its parent holds",
               "Environment subclasses are instantiated through their own constructors (no explicit tag possible)"]

TYPES = [CompA, CompB, CompF]     # CompF instances are falsy
EXTRA = [type(f"CompX{i}", (CompA.__mro__[1],), {}) for i in range(10)]     # ten more component types for LONG templates
BASES = [Agent, Environment, SpaceWorld]


def _reset(cls):
    for t in list(cls.components):
        cls.remove_class_component(t)
    cls.tag = 0


def run_case(case):
    model = Model()
    for b in BASES:
        _reset(b)
    try:
        return _run(case, model)
    finally:
        for b in BASES:
            _reset(b)


import enum


class Kind(enum.IntEnum):
    ZERO = 0
    ONE = 1
    TWO = 2
    THREE = 3
    FOUR = 4
    FIVE = 5


def _tag_value(v, how):
    """the same tag value in another integer type"""
    if how == "enum":
        return Kind(v)
    if how == "bool" and v in (0, 1):
        return bool(v)
    if how == "numpy":
        import numpy as np
        return np.int64(v)
    return v


def _make(cls, model, tag, n):
    if issubclass(cls, SpaceWorld):
        return cls(model, 5, 4)
    if issubclass(cls, Environment):
        return cls(model)
    if tag is None:
        return cls(f"a{n}", model)
    return cls(f"a{n}", model, tag=tag)


PLUGINS = []


def _run(case, model):
    classes = list(BASES)
    parents = {0: None, 1: 0, 2: 1}
    # a class factory may hand the SAME body dict object to type() for every class it creates (also for the classes created
    # mid-history): the classes are separate classes all the same
    body = {"__doc__": "made by a factory"} if case.get("one_body") else None
    for i, spec in enumerate(case["classes"][:7]):
        spec = int(spec)
        b = spec % len(classes) if spec >= 0 else (len(classes) - 1 if len(classes) > 3 else 0)
        ns = body if body is not None else {}
        if case.get("hook") and i == 0:
            # a plug-in style base class: its __init_subclass__ registers descendants and does not call super()
            ns = dict(ns, __init_subclass__=classmethod(lambda cls, **kw: PLUGINS.append(cls.__name__)))
        classes.append(type(f"K{i}", (classes[b],), ns))
        parents[len(classes) - 1] = b
    nfresh = len(classes) - 3
    if nfresh == 0:
        raise InvalidCase("no classes")
    shared = bool(case.get("shared"))
    targets = list(range(3, len(classes))) + ([0, 1] if shared else [])
    comps = {i: {} for i in range(len(classes))}      # class idx -> {type: component}
    tags = {i: 0 for i in range(len(classes))}
    instances = []                                    # (obj, expected tag, {type: comp})
    tag_changed = set()
    class_change_with_relatives = False
    inst_after_tag_change = False
    labels = set()

    def relatives(i):
        return any(parents[j] == i for j in parents) or (parents[i] is not None and parents[i] >= 0)

    def verify(where):
        for i, cls in enumerate(classes):
            exp = comps[i]
            if len(cls) != len(exp):
                raise Violation("class-len", f"{where}: len({cls.__name__}) = {len(cls)}, expected {len(exp)} ({_names(exp)})")
            for t in TYPES + [CompC, CompD] + EXTRA[:2]:
                got = cls[t]
                if got is not exp.get(t):
                    raise Violation("class-component-leak" if t not in exp else "class-component-lost",
                                    f"{where}: {cls.__name__}[{t.__name__}] is {got!r}, expected {exp.get(t)!r}; class tree {_tree(classes, parents)}")
                if (t in cls) != (t in exp):
                    raise Violation("class-contains", f"{where}: {t.__name__} in {cls.__name__} is {t in cls}, expected {t in exp}")
                if t in exp:
                    if cls.get_class_component(t, throw_error=True) is not exp[t]:
                        raise Violation("class-component-lost", f"{where}: get_class_component strict mismatch on {cls.__name__}")
                else:
                    expect_raises("class-get-strict-error", ComponentNotFoundError, cls.get_class_component, t, throw_error=True)
            for pair in ((), (CompA, CompB), (CompB, CompF), (CompA, CompB, CompF), tuple(TYPES + EXTRA), tuple(EXTRA), tuple(EXTRA[:9])):
                want = all(t in exp for t in pair)
                if cls.has_class_component(*pair) != want:
                    raise Violation("class-has-allof", f"{where}: {cls.__name__}.has_class_component{tuple(t.__name__ for t in pair)} "
                                                       f"= {not want}, class has {_names(exp)}")
            if cls.tag != tags[i]:
                raise Violation("class-tag-leak", f"{where}: {cls.__name__}.tag = {cls.tag}, expected {tags[i]}; tree {_tree(classes, parents)}")
        for obj, etag, ecomps in instances:
            if obj.tag != etag:
                raise Violation("instance-tag", f"{where}: instance of {type(obj).__name__} has tag {obj.tag}, expected {etag}")
            if set(obj.components) != set(ecomps) or any(obj.components[t] is not c for t, c in ecomps.items()):
                raise Violation("instance-components", f"{where}: instance of {type(obj).__name__} has components "
                                                       f"{[t.__name__ for t in obj.components]}, expected {_names(ecomps)}")
            for t in TYPES:
                if (t in obj) != (t in ecomps):
                    raise Violation("instance-components", f"{where}: {t.__name__} in instance is {t in obj}")
            for tmpl in (tuple(ecomps), tuple(ecomps) + tuple(EXTRA[:2]), tuple(EXTRA), tuple(list(ecomps) + EXTRA), tuple(EXTRA[:9])):
                want = all(t in ecomps for t in tmpl)       # templates of any length, also 9+ types: all-of over the INSTANCE's own components
                if obj.has_component(*tmpl) != want:
                    raise Violation("instance-has-allof", f"{where}: instance of {type(obj).__name__}.has_component({len(tmpl)} types) = "
                                                          f"{not want}; instance has {_names(ecomps)}, its class has {_names(comps[classes.index(type(obj))])}")

    verify("fresh tree")
    for k, op in enumerate(case["ops"]):
        maybe_complete(case, k, model, labels)
        kind = op["op"]
        ci = targets[int(op.get("cls", 0)) % len(targets)]
        cls = classes[ci]
        where = f"after op {k} {op} on {cls.__name__}"
        if kind == "fill_cc":                         # give the class (or an instance) ALL extra types: long templates become satisfiable
            for t in EXTRA:
                if t not in comps[ci]:
                    comp = t(cls, model)
                    cls.add_class_component(comp)
                    comps[ci][t] = comp
            class_change_with_relatives |= relatives(ci)
            labels.add("class-with-13-types")
        elif kind == "fill_inst":
            if not instances:
                continue
            obj, etag, ecomps = instances[int(op.get("i", 0)) % len(instances)]
            for t in EXTRA:
                if t not in ecomps:
                    comp = t(obj, model)
                    obj.add_component(comp)
                    ecomps[t] = comp
            labels.add("instance-with-10+-types")
        elif kind == "add_cc":
            t = TYPES[int(op["t"]) % 3]
            comp = t(cls, model)
            holders = [cj for cj in sorted(comps) if cj != ci and t in comps[cj]]
            if op.get("share") and holders:
                # the very component OBJECT that another class of the hierarchy holds is attached here too (one shared
                # configuration object): the other class keeps it
                comp = comps[holders[int(op.get("share")) % len(holders)]][t]
                labels.add("component-object-shared-by-two-classes")
            if t in comps[ci]:
                expect_raises("class-duplicate-attach", ValueError, cls.add_class_component, comp)
                labels.add("dup-attach")
            else:
                cls.add_class_component(comp)
                comps[ci][t] = comp
                class_change_with_relatives |= relatives(ci)
        elif kind == "rem_cc":
            t = TYPES[int(op["t"]) % 3]
            if t in comps[ci]:
                cls.remove_class_component(t)
                del comps[ci][t]
                class_change_with_relatives |= relatives(ci)
            else:
                expect_raises("class-absent-detach", ComponentNotFoundError, cls.remove_class_component, t)
                labels.add("absent-detach")
        elif kind == "set_tag":
            v = int(op["v"]) % 6
            cls.tag = v
            if v != tags[ci]:
                tag_changed.add(ci)
                class_change_with_relatives |= relatives(ci)
            tags[ci] = v
        elif kind == "subclass":
            if len(classes) >= 12:
                continue
            clone = bool(op.get("clone")) and ci >= 3
            if clone:       # a class re-created from another class's namespace (class decorators and copy helpers do this): a separate class,
                classes.append(type(cls)(f"L{len(classes)}", cls.__bases__, dict(vars(cls))))         # a sibling with nothing attached
            else:
                classes.append(type(f"L{len(classes)}", (cls,), body if body is not None else {}))       # a class defined AFTER its ancestors were modified
            ni = len(classes) - 1
            parents[ni] = parents[ci] if clone else ci
            if clone:
                labels.add("cloned-class" + ("-of-modified" if (comps[ci] or tags[ci]) else ""))
            comps[ni] = {}
            tags[ni] = 0
            targets.append(ni)
            labels.add("late-subclass" + ("-of-modified" if (comps[ci] or tags[ci]) else ""))
        elif kind == "new":
            tag = op.get("tag")
            if issubclass(cls, Environment):
                tag = None
            obj = _make(cls, model, None if tag is None else _tag_value(int(tag) % 6, op.get("tagtype")), len(instances))
            etag = tags[ci] if tag is None else int(tag) % 6
            instances.append((obj, etag, {}))
            labels.add("instance-default-tag" if tag is None else "instance-explicit-tag")
            if tag is None and ci in tag_changed and ci >= 1:
                inst_after_tag_change = True
        elif kind == "inst_add":
            if not instances:
                continue
            obj, etag, ecomps = instances[int(op.get("i", 0)) % len(instances)]
            t = TYPES[int(op["t"]) % 3]
            comp = t(obj, model)
            if t in ecomps:
                expect_raises("instance-duplicate-attach", ValueError, obj.add_component, comp)
            else:
                obj.add_component(comp)
                ecomps[t] = comp
        else:
            raise InvalidCase(op)
        look = ("every", "every", "sparse", "end")[len(case["ops"]) % 4]      # how often all classes are inspected between operations
        if look == "every" or (look == "sparse" and k % 3 == 2) or k == len(case["ops"]) - 1:
            verify(where)
    return {"nontrivial": class_change_with_relatives and inst_after_tag_change,
            "labels": sorted(labels) + (["shared-bases-mutated"] if shared else [])}


def _names(d):
    return [t.__name__ for t in d]


def _tree(classes, parents):
    return {c.__name__: (classes[parents[i]].__name__ if parents[i] is not None else None) for i, c in enumerate(classes)}


def strategy(tier):
    cls = wone_of(st.integers(0, 2), st.integers(0, 2), st.integers(0, 8))
    t = wone_of(st.just(0), st.integers(0, 2))
    ops = wone_of(
        st.fixed_dictionaries({"op": st.just("add_cc"), "cls": cls, "t": t, "share": st.sampled_from([0, 0, 1, 2])}),
        st.fixed_dictionaries({"op": st.just("add_cc"), "cls": cls, "t": t, "share": st.sampled_from([0, 0, 1, 2])}),
        st.fixed_dictionaries({"op": st.just("rem_cc"), "cls": cls, "t": t}),
        st.fixed_dictionaries({"op": st.just("set_tag"), "cls": cls, "v": st.integers(0, 5)}),
        st.fixed_dictionaries({"op": st.just("set_tag"), "cls": cls, "v": st.integers(0, 5)}),
        st.fixed_dictionaries({"op": st.just("new"), "cls": cls, "tag": wone_of(st.none(), st.none(), st.integers(0, 5)),
                               "tagtype": st.sampled_from(["int", "int", "enum", "bool", "numpy"])}),
        st.fixed_dictionaries({"op": st.just("new"), "cls": cls, "tag": wone_of(st.none(), st.integers(0, 5)),
                               "tagtype": st.sampled_from(["int", "enum", "bool", "numpy"])}),
        st.fixed_dictionaries({"op": st.just("inst_add"), "i": st.integers(0, 9), "t": t}),
        st.fixed_dictionaries({"op": st.just("subclass"), "cls": cls, "clone": st.sampled_from([0, 0, 1])}),
        st.fixed_dictionaries({"op": st.just("fill_cc"), "cls": cls}),
        st.fixed_dictionaries({"op": st.just("fill_inst"), "i": st.integers(0, 9)}),
    )
    return with_done(st.fixed_dictionaries({
        "classes": st.lists(wone_of(st.just(-1), st.just(-1), st.integers(0, 9)), min_size=2, max_size=7),
        "shared": st.integers(0, 3).map(lambda v: v == 0), "one_body": st.sampled_from([False, False, True]), "hook": st.sampled_from([False, False, False, True]),
        "ops": wone_of(st.lists(ops, min_size=1, max_size=40), sized_lists(ops, 6, 40), sized_lists(ops, 6, 40)),
    }))
