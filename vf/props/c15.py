"""C15 - a batch runs every combination x repetition once; no result lost or mixed."""
import itertools
import time
from collections import Counter

from hypothesis import strategies as st

from ECAgent.Core import Model, System
from ECAgent.Collectors import Collector
from ECAgent.Batching import ParameterList, batch_run
from vf.engine import Violation, InvalidCase, quiesce
from vf.fixtures import check, expect_raises, wone_of

PROPERTY = "C15"
CASE_TIMEOUT_S = 10      # a case normally takes < 0.2 s; see DESIGN.md 2.9 (hang handling)
BUDGET = {"quick": 1200, "thorough": 3600}
RULE = ("Parameter grids over the fixture model's kwargs (a, b: small lists with repeated values or scalars; stop = the model's own "
        "completion time, scalar or list; cost = per-run sleep 0-4 ms so that completion order is permuted), as dict and as "
        "ParameterList; repetitions 1-3; max_timesteps below / at / above stop or default; collectors None / 'rec' / ['rec'] / "
        "['rec','rec2']; processes 1..5 (thorough 1..16); optionally ONE combination marked to fail (constructor or system raises "
        "a picklable exception carrying the combination: a custom class, KeyError, ArithmeticError or StopIteration). The fixture's collectors append (kwargs signature, timestep) every "
        "timestep. Oracle: the multiset of results equals, per combination x repetition, [(sig, t) for t < min(stop, "
        "max_timesteps)] (product order repeated `repetitions` times when processes == 1); every result is pure (one signature, "
        "consecutive timesteps from 0, none at/after the limit or the completion); collectors=None -> []; an injected failure "
        "reaches the caller as InjectedFailure with that combination; invalid collectors type -> AttributeError. Non-trivial: "
        ">= 2 combinations x >= 2 repetitions with >= 2 processes, or a failure injected at a position > 0. Distinct = digest."
        " Added in rounds 19-24: a ParameterList object that served an earlier experiment (built, every name removed and declared again); the caller may inspect build() first and edit what it was handed.")
EXHAUSTIVE_DOMAIN = ("two 3-run batches in which one execution (a healthy one / the failing one) sleeps 1.3 s while the others take milliseconds; fixed grids (2x2, 3x1 [quick]; + 2x2x2 [thorough]) x processes 1..3 (thorough 1..16) x failing position "
                     "0..n-1 x {constructor, system} and the no-failure run")
ASSUMPTIONS = ["the OS schedule is perturbed (per-run sleeps, process counts) but not owned: a loss that needs one particular "
               "interleaving inside multiprocessing itself is out of reach"]


class InjectedFailure(Exception):
    pass


class Finisher(System):
    def __init__(self, model, stop):
        super().__init__("fin", model, priority=10)
        self.stop = stop

    def execute(self):
        if self.model.systems.timestep >= self.stop:
            self.model.complete()


from ECAgent.Core import ModelCompleteError


def _raise_model_complete(sig):
    return ModelCompleteError()


FAILURES = {"injected": InjectedFailure, "stopiteration": StopIteration, "keyerror": KeyError, "systemexit-free": ArithmeticError,
            "modelcomplete": ModelCompleteError}


class Bomb(System):
    def __init__(self, model, sig, exc):
        super().__init__("bomb", model, priority=5)
        self.sig = sig
        self.exc = exc

    def execute(self):
        raise (self.exc() if self.exc is ModelCompleteError else self.exc(self.sig))


class SigCollector(Collector):
    def __init__(self, id, model, sig, sign, **kw):
        super().__init__(id, model, **kw)
        self.sig = sig
        self.sign = sign

    def collect(self):
        self.records.append((self.sig, self.sign * self.model.systems.timestep))


class Swapper(System):
    """runs LAST in a timestep (priority -5, after the collectors) and, at one timestep, replaces the collector 'rec' by a new
    collector object of the same id that carries the records over and is due from the next timestep on: the batch must report
    the records of the collector the model ends up with"""

    def __init__(self, model, at, sig):
        super().__init__("swapper", model, priority=-5)
        self.at, self.sig = at, sig

    def execute(self):
        t = self.model.systems.timestep
        if t == self.at:
            old = self.model.systems["rec"]
            self.model.systems.remove_system("rec")
            new = SigCollector("rec", self.model, self.sig, 1, start=t + 1)
            new.records.extend(old.records)
            self.model.systems.add_system(new)


class BatchModel(Model):
    def __init__(self, a, b=0, stop=3, cost=0, fail_sig="", fail_where="ctor", fail_exc="injected", dt=None, slow_sig="", slow_ms=0, swap_at=None):
        super().__init__()
        if slow_ms and slow_sig == f"a={a},b={b},stop={stop}":
            time.sleep(int(slow_ms) / 1000.0)          # one execution takes over a second while the others take milliseconds
        if dt is not None:
            self.timestep = dt          # the model's OWN attribute of that name (a step length, say): not the scheduler's counter
        sig = f"a={a},b={b},stop={stop}"
        if cost:
            time.sleep((hash(sig) % (int(cost) + 1)) / 1000.0 if cost > 0 else 0)
        if fail_sig == sig and fail_where == "ctor":
            raise (ModelCompleteError() if fail_exc == "modelcomplete" else FAILURES[fail_exc](sig))
        self.systems.add_system(Finisher(self, stop))
        if fail_sig == sig:
            self.systems.add_system(Bomb(self, sig, FAILURES[fail_exc]))
        self.systems.add_system(SigCollector("rec", self, sig, 1))
        self.systems.add_system(SigCollector("rec2", self, sig, -1))
        self.systems.add_system(SigCollector("pre", self, sig, 1, priority=20))     # runs BEFORE the finisher: sees timestep `stop` too
        if swap_at is not None:
            self.systems.add_system(Swapper(self, int(swap_at), sig))


def values(v):
    return list(v) if isinstance(v, list) else [v]


def run_case(case):
    try:
        return _run_case(case)
    finally:
        quiesce()


def _call(case, p, kw):
    """batch_run by keyword (usual) or with every argument in its documented position:
    (model_cls, parameters, collectors, processes, max_timesteps, repetitions)"""
    if case.get("positional") and "max_timesteps" in kw:
        return batch_run(BatchModel, p, kw.get("collectors"), kw["processes"], kw["max_timesteps"], kw["repetitions"])
    return batch_run(BatchModel, p, **kw)


def _run_case(case):
    a, b, stop = case["a"], case.get("b", 0), case.get("stop", 3)
    cost = int(case.get("cost", 0))
    reps = max(1, min(int(case.get("reps", 1)), 3))
    procs = max(1, min(int(case.get("processes", 1)), 16))
    max_ts = case.get("max_timesteps")
    coll = case.get("collectors", "rec")
    combos = [(x, y, s) for x in values(a) for y in values(b) for s in values(stop)]
    if any(int(s) < 0 or int(s) > 12 for _, _, s in combos):
        raise InvalidCase("stop")
    if len(combos) * reps > 400:
        raise InvalidCase("too large")
    sigs = [f"a={x},b={y},stop={s}" for x, y, s in combos]
    params = {"a": a, "b": b, "stop": stop, "cost": cost}
    if case.get("dt") is not None:
        params["dt"] = case["dt"]
    if case.get("swap_at") is not None:
        params["swap_at"] = int(case["swap_at"])
    if case.get("slow") is not None and combos:
        params["slow_sig"] = sigs[int(case["slow"]) % len(sigs)]
        params["slow_ms"] = max(0, min(int(case.get("slow_ms", 1300)), 2500))
    fail = case.get("fail")
    fail_sig = None
    if fail is not None and combos:
        fail_sig = sigs[int(fail) % len(sigs)]
        params["fail_sig"] = fail_sig
        params["fail_where"] = case.get("fail_where", "ctor")
        params["fail_exc"] = case.get("fail_exc", "injected") if case.get("fail_exc") in FAILURES else "injected"
        if params["fail_exc"] == "modelcomplete" and procs > 1:
            params["fail_exc"] = "injected"         # ModelCompleteError() cannot be unpickled across a Pool (its __init__ takes no message)
    p = params
    if case.get("plist"):
        p = ParameterList()
        if case.get("plist") == 2:
            # a list object that served an earlier experiment: declared with other values, built, then every name is removed
            # and declared again with this experiment's values
            for k, v in params.items():
                p.add_parameter(k, [-7, -8, -9] if k in ("a", "b") else v)
            p.build()
            for k in list(params):
                p.remove_parameter(k)
        for k, v in params.items():
            p.add_parameter(k, v)
        if case.get("plist") == 3:
            # the caller inspects the product first and edits what build() handed out (its own copy): the experiment runs the
            # declared product all the same
            peek = p.build()
            if isinstance(peek, list):
                for d_ in peek:
                    if isinstance(d_, dict):
                        d_["a"] = 99
                peek.reverse()
                del peek[:1]
    kw = {"collectors": coll, "processes": procs, "repetitions": reps}
    if case.get("coll_tuple") and isinstance(coll, list):
        kw["collectors"] = tuple(coll)                 # any Iterable of names is documented to work
    if coll == "none":
        kw["collectors"] = None
    if max_ts is not None:
        kw["max_timesteps"] = int(max_ts)
    desc = f"grid a={a} b={b} stop={stop} reps={reps} processes={procs} max_timesteps={max_ts} collectors={coll!r} fail={fail_sig}"

    if coll == "invalid":
        kw["collectors"] = 5
        expect_raises("invalid-collectors-attributeerror", AttributeError, batch_run, BatchModel, p, **kw)
        return {"nontrivial": False, "labels": ["invalid-collectors"]}

    if fail_sig is not None and params["fail_where"] == "system":
        # the failing system (priority 5) only runs if the failing execution reaches timestep 0 with the model still running
        fstop = int(combos[int(fail) % len(sigs)][2])
        if fstop < 1 or (max_ts is not None and int(max_ts) < 1):
            fail_sig = None
    if fail_sig is not None:
        exc_type = FAILURES[params["fail_exc"]]
        desc += f" ({exc_type.__name__})"
        try:
            res = _call(case, p, kw)
        except exc_type as e:
            if exc_type is not ModelCompleteError and (not e.args or e.args[0] != fail_sig):
                raise Violation("failure-mixed-up", f"{desc}: the {exc_type.__name__} carries {e.args}, expected {fail_sig}")
        except Exception as e:
            raise Violation("failure-wrong-error", f"{desc}: raised {type(e).__name__}: {e}")
        else:
            raise Violation("failure-swallowed", f"{desc}: batch_run returned {len(res) if isinstance(res, list) else res!r} results; the injected "
                                                 f"failure never reached the caller")
        pos = int(fail) % len(sigs)
        return {"nontrivial": pos > 0, "labels": ["failure-injected", f"fail-{case.get('fail_where', 'ctor')}", f"exc-{exc_type.__name__}", f"procs{min(procs, 4)}{'+' if procs >= 4 else ''}"]}

    try:
        res = _call(case, p, kw)
    except Exception as e:
        raise Violation("batch-raised", f"{desc}: raised {type(e).__name__}: {e}")
    if not isinstance(res, list):
        raise Violation("result-shape", f"{desc}: returned {res!r}")
    if coll == "none":
        if res != []:
            raise Violation("result-shape", f"{desc}: collectors=None returned {res!r}, expected []")
        return {"nontrivial": False, "labels": ["collectors-none"]}
    limit = lambda s: min(int(s), int(max_ts)) if max_ts is not None else int(s)

    def exp_one(sig, s):
        rec = [(sig, t) for t in range(limit(s))]
        rec2 = [(sig, -t) for t in range(limit(s))]
        if coll == "rec":
            return rec
        if coll == ["rec"]:
            return {"rec": rec}
        if coll == ["pre", "rec"]:
            n = min(int(s) + 1, int(max_ts)) if max_ts is not None else int(s) + 1
            return {"pre": [(sig, t) for t in range(n)], "rec": rec}
        return {"rec": rec, "rec2": rec2}
    expected = [exp_one(sig, s) for _ in range(reps) for sig, (_, _, s) in zip(sigs, combos)]
    norm = lambda r: repr(_tup(r))
    # purity of every result
    for i, r in enumerate(res):
        lists = [r] if coll == "rec" else (list(r.values()) if isinstance(r, dict) else None)
        if lists is None or (isinstance(r, dict) and sorted(r) != sorted(exp_one("x", 0))):
            raise Violation("result-shape", f"{desc}: result {i} is {r!r}")
        for lst in lists:
            ss = {tuple(x)[0] for x in lst}
            if len(ss) > 1:
                raise Violation("result-mixed", f"{desc}: result {i} mixes records of {sorted(ss)}")
            ts = [abs(tuple(x)[1]) for x in lst]
            if ts != list(range(len(ts))):
                raise Violation("result-impure", f"{desc}: result {i} has timesteps {ts}")
            if ss:
                s = int(next(iter(ss)).rsplit("stop=", 1)[1])
                if len(ts) > limit(s) + 1:
                    raise Violation("ran-past-limit", f"{desc}: result {i} of {next(iter(ss))} has {len(ts)} timesteps, limit is {limit(s)}")
    got_c, exp_c = Counter(map(norm, res)), Counter(map(norm, expected))
    if got_c != exp_c:
        missing, extra = exp_c - got_c, got_c - exp_c
        if len(res) < len(expected):
            clause = "result-lost"
        elif len(res) > len(expected):
            clause = "result-duplicated"
        else:
            clause = "result-wrong"
        raise Violation(clause, f"{desc}: {len(res)} results for {len(expected)} executions; missing {list(missing.items())[:3]}, "
                                f"unexpected {list(extra.items())[:3]}")
    if procs == 1:
        if list(map(norm, res)) != list(map(norm, expected)):
            raise Violation("serial-order", f"{desc}: with one process results must follow product order x repetitions")
        flat = [id(x) for x in res] + ([id(v) for r in res for v in r.values()] if coll != "rec" else [])
        if len(set(flat)) != len(flat):
            raise Violation("results-shared", f"{desc}: the same list object is returned for several executions")
    labels = (["runs>64"] if len(combos) * reps > 64 else []) + [f"procs{min(procs, 4)}{'+' if procs >= 4 else ''}", f"reps{reps}", "coll-" + ("rec" if coll == "rec" else ("list1" if coll == ["rec"] else ("pre+rec" if coll[0] == "pre" else "list2")))]
    if case.get("dt") is not None:
        labels.append("model-has-own-timestep-attribute")
    if case.get("slow") is not None:
        labels.append("one-execution-takes-over-a-second")
    if case.get("swap_at") is not None:
        labels.append("collector-object-replaced-mid-run")
    if max_ts is not None:
        labels.append("limit-below" if any(int(max_ts) < int(s) for _, _, s in combos) else "limit-at-or-above")
    if len(set(sigs)) < len(sigs):
        labels.append("duplicate-combinations")
    return {"nontrivial": len(combos) >= 2 and reps >= 2 and procs >= 2, "labels": labels}


def _tup(x):
    if isinstance(x, dict):
        return tuple(sorted((k, _tup(v)) for k, v in x.items()))
    if isinstance(x, (list, tuple)):
        return tuple(_tup(v) for v in x)
    return x


def strategy(tier):
    maxp = 5 if tier == "quick" else 16
    from vf.fixtures import near_pow2
    # long batches: chunked / batched dispatch only differs from one-task-per-run beyond a size threshold
    long_batch = near_pow2(33, 130).flatmap(lambda n: st.fixed_dictionaries({
        "a": st.just(list(range(n))), "b": st.just(0), "stop": st.sampled_from([1, 2]), "cost": st.just(0), "reps": st.sampled_from([1, 1, 2]),
        "processes": st.sampled_from([1, 2, 3, 4, maxp]), "max_timesteps": st.sampled_from([None, 1]),
        "collectors": st.sampled_from(["rec", ["pre", "rec"]]), "plist": st.sampled_from([False, True, True, 2, 3]), "coll_tuple": st.booleans(),
        "fail": st.one_of(st.none(), st.none(), st.integers(0, 129)), "fail_where": st.sampled_from(["ctor", "system"]),
        "fail_exc": st.sampled_from(["injected", "stopiteration"])}))
    small = _small(maxp)
    slow = st.fixed_dictionaries({"a": st.just([0, 1, 2]), "b": st.sampled_from([0, [0, 1]]), "stop": st.sampled_from([1, 2]), "cost": st.just(0),
                                  "reps": st.sampled_from([1, 2]), "processes": st.sampled_from([2, 3, 4]), "max_timesteps": st.sampled_from([None, 1]),
                                  "collectors": st.sampled_from(["rec", ["pre", "rec"]]), "plist": st.sampled_from([False, True, True, 2, 3]), "slow": st.integers(0, 5),
                                  "slow_ms": st.sampled_from([1150, 1300, 2100]), "fail": st.one_of(st.none(), st.none(), st.integers(0, 5)),
                                  "fail_where": st.just("ctor"), "fail_exc": st.just("injected")})
    return wone_of(*([small] * 44 + [long_batch] * 4 + [slow]))


def _small(maxp):
    small = st.lists(st.integers(0, 3), min_size=1, max_size=3)
    return st.fixed_dictionaries({
        "a": wone_of(small, small, st.integers(0, 3)),
        "b": wone_of(st.integers(0, 3), st.lists(st.integers(0, 2), min_size=1, max_size=2)),
        "stop": wone_of(st.integers(0, 6), st.integers(1, 6), st.lists(st.integers(0, 6), min_size=1, max_size=2)),
        "cost": st.sampled_from([0, 0, 2, 4]), "dt": st.sampled_from([None, None, None, None, 0.25, 2, 100]), "positional": st.sampled_from([False, False, True]), "swap_at": st.sampled_from([None, None, None, 0, 1, 2]),
        "reps": st.integers(1, 3),
        "processes": wone_of(st.just(1), st.integers(2, maxp), st.integers(2, maxp), st.integers(2, 3)),
        "max_timesteps": wone_of(st.none(), st.integers(0, 8)),
        "collectors": st.sampled_from(["rec", "rec", ["pre", "rec"], ["pre", "rec"], ["rec"], ["rec", "rec2"], "none", "invalid"]),
        "plist": st.sampled_from([False, True, True, 2, 3]), "coll_tuple": st.booleans(),
        "fail": wone_of(st.none(), st.none(), st.none(), st.none(), st.integers(0, 11)),
        "fail_where": st.sampled_from(["ctor", "system"]),
        "fail_exc": st.sampled_from(["injected", "injected", "stopiteration", "keyerror", "systemexit-free", "modelcomplete"]),
    })


def exhaustive(tier):
    grids = [{"a": [0, 1], "b": [0, 1], "stop": 2}, {"a": [0, 1, 2], "b": 0, "stop": 3}]
    procs = range(1, 4)
    if tier != "quick":
        grids.append({"a": [0, 1], "b": [0, 1], "stop": [1, 3]})
        procs = range(1, 17)
    # one execution that takes well over a second (a polling collector with a timeout must keep waiting for it), also a failing one
    slow = {"a": [0, 1, 2], "b": 0, "stop": 1, "cost": 0, "reps": 1, "max_timesteps": None, "collectors": "rec", "plist": False, "slow_ms": 1300}
    yield dict(slow, processes=2, slow=0, fail=None)
    yield dict(slow, processes=3, slow=2, fail=2, fail_where="ctor")
    for g in grids:
        n = len(values(g["a"])) * len(values(g["b"])) * len(values(g["stop"]))
        for p in procs:
            yield dict(g, cost=2, reps=2, processes=p, max_timesteps=None, collectors="rec", plist=False, fail=None)
            yield dict(g, cost=2, reps=2, processes=p, max_timesteps=9, collectors=["pre", "rec"], plist=True, fail=None)
            for pos in range(n):
                for where in ("ctor", "system"):
                    yield dict(g, cost=2, reps=1, processes=p, max_timesteps=None, collectors="rec", plist=False, fail=pos, fail_where=where)
                yield dict(g, cost=2, reps=1, processes=p, max_timesteps=None, collectors="rec", plist=False, fail=pos, fail_where="ctor",
                           fail_exc="stopiteration")
                if p == 1:
                    for where in ("ctor", "system"):
                        yield dict(g, cost=0, reps=1, processes=1, max_timesteps=None, collectors="rec", plist=False, fail=pos, fail_where=where,
                                   fail_exc="modelcomplete")
