"""C11 - cell components hold each cell's own value and are independent of their sources."""
import numpy as np
from hypothesis import strategies as st

from ECAgent.Core import Model, ComponentNotFoundError
from ECAgent.Environments import ConstantGenerator, DiscreteWorld, GridWorld, LineWorld, LookupGenerator
from vf.engine import Violation, InvalidCase
from vf.fixtures import maybe_complete, with_done, check, expect_raises, sized_lists, wone_of

PROPERTY = "C11"
BUDGET = {"quick": 1500, "thorough": 4500}
RULE = ("A grid shape (line, 2-D, 3-D, degenerate zero-extent axes in any position, non-cubic) and a history (1-14 ops) of "
        "add(name, source)/remove(name)/remove(unknown) over 4 names. Sources: callable f(pos, cells), list, numpy int/float "
        "array, ConstantGenerator, LookupGenerator over nested lists or numpy arrays; values int / dyadic float / str / tuple / list (also a sequence-valued constant with one entry per cell), "
        "position dependent and injective (mult*(10000z+100y+x)+off). After every op EVERY live component is re-read for "
        "EVERY cell through world.cells[name][id] and world.get_cell(x,y,z)[name] and compared with the value the source "
        "assigns to that cell (coordinates computed independently, x fastest); the caller's list/array is overwritten "
        "after the add; 'pos', the row count and the set of columns must be untouched; unknown removal -> "
        "ComponentNotFoundError. Non-trivial: >= 2 populated axes of different extent with a position-dependent source "
        "and >= 2 components alive when one is removed. While F4 is live lookup tables are generated with full 3-level "
        "nesting only (tables of the world's own dimensionality on line/2-D worlds are excluded and counted)."
        " Added in rounds 18-24: generators that compute beyond 64 bits from the coordinates they are handed; one-element sequences as values; component names that are integers, '', tuples and frozensets of other names; an operation 'use' (whole-world and small neighbourhood queries whose results are edited); the model may be marked complete.")
ASSUMPTIONS = ["a name in use is not re-added (replacement is not claimed)", "values avoid None/NaN (pandas rewrites them)",
               "|values| < 2^45 so that pandas keeps native dtypes"]
LIVE = set()
NAMES = [f"c{i}" for i in range(80)]
# component names are column labels: any hashable works (the empty string, integers, tuples, frozensets - also ones whose members are
# themselves names of other components)
NAMES_X = ["c0", "c1", ("c0", "c1"), frozenset({"c0", "c1"}), 7, "", ("c0",), frozenset({"c1"})]


def configure(live):
    LIVE.clear()
    LIVE.update(live)


def build(case):
    m = Model()
    kind = case.get("kind", "discrete")
    w, h, d = int(case["w"]), int(case.get("h", 0)), int(case.get("d", 0))
    if min(w, h, d) < 0:
        raise InvalidCase("shape")
    if kind == "line":
        if w < 1:
            raise InvalidCase("shape")
        return LineWorld(m, w), (w, 0, 0)
    if kind == "grid":
        if w < 1 or h < 1:
            raise InvalidCase("shape")
        return GridWorld(m, w, h), (w, h, 0)
    return DiscreteWorld(m, w, h, d), (w, h, d)


def value(src, p):
    n = int(src.get("mult", 1)) * (10000 * p[2] + 100 * p[1] + p[0]) + int(src.get("off", 0))
    vt = src.get("vtype", "int")
    if vt == "float":
        return n / 8.0
    if vt == "hugepow":                # computed FROM the coordinates with Python's unbounded integers (beyond 64 bits): a generator
        return 3 ** (41 + p[0] + p[1] + p[2]) + (1 << (62 + p[0]))      # handed numpy integers instead of ints would overflow
    if vt == "bigint":                 # odd integers beyond 2**53: not representable as floats
        return 2 ** 53 + 1 + 2 * abs(n)
    if vt == "bigfloat":               # the floats those integers round to: equal to them AS FLOATS, different values
        return float(2 ** 53 + 1 + 2 * abs(n))
    if vt == "str":
        return f"v{n}"
    if vt == "tuple":
        return (n, n + 1, n + 2)
    if vt == "list2":
        return [n, -n]
    if vt == "seq1":                   # one-element sequences (and nested ones): in a world whose other axes have extent 1 a flat list
        return ([n], (n,), [[n]], [(f"k{n}",)])[(p[0] + p[1] + p[2]) % 4 if src.get("mult", 1) % 2 == 0 else int(src.get("off", 0)) % 4]      # of them has the outline of a world-shaped table
    if vt == "dict":                   # a record of attributes
        return {"kind": f"k{n}", "level": n, 0: n + 1}
    if vt == "set":
        return frozenset({n, n + 1}) if n % 2 else {n, -1}
    if vt == "bytes":
        return bytes([n % 256, 1])
    if vt == "nonebool":
        return None if n % 3 == 0 else bool(n % 3 - 1)
    if vt == "mixed":                  # the kind of value differs from cell to cell
        k = (p[0] + p[1] + p[2]) % 3
        return n if k == 0 else (f"s{n}" if k == 1 else n / 4.0)
    return n


def same(got, exp):
    if isinstance(exp, bool):          # a column of booleans hands back numpy booleans
        return isinstance(got, (bool, np.bool_)) and bool(got) == exp
    if isinstance(exp, (dict, set, frozenset, bytes)) or exp is None:
        return type(got) is type(exp) and got == exp
    if isinstance(exp, (tuple, list)):
        return type(got) is type(exp) and len(got) == len(exp) and all(same(g, e) for g, e in zip(got, exp))
    if isinstance(exp, str):
        return isinstance(got, str) and got == exp
    if isinstance(exp, (int, float)) and not isinstance(exp, bool) and abs(exp) > 2 ** 52:
        # huge numbers: an integer and the float it rounds to compare equal in numpy - compare kind and exact value
        if isinstance(exp, int):
            return isinstance(got, (int, np.integer)) and not isinstance(got, (bool, np.bool_)) and int(got) == exp
        return isinstance(got, (float, np.floating)) and float(got) == exp
    if isinstance(got, (str, bytes)) or got is None:
        return False
    try:
        return bool(got == exp)
    except Exception:
        return False


def run_case(case):
    NNAMES = max(1, min(int(case.get("names", 4)), 80))
    names = NAMES
    if case.get("xnames"):
        names, NNAMES = NAMES_X, len(NAMES_X)         # size of the name pool (large cases: dozens of live columns)
    world, (w, h, d) = build(case)
    ew, eh, ed = max(w, 1), max(h, 1), max(d, 1)
    cells = [(x, y, z) for z in range(ed) for y in range(eh) for x in range(ew)]
    n = len(cells)
    live = {}                # name -> list of expected values by id
    excluded = 0
    labels = set()
    nontrivial_src = False
    removed_with_two = False
    populated = [e for e in (w, h, d) if e > 0]
    multi_axis = len(populated) >= 2 and len(set(populated)) >= 2

    def verify(where):
        cols = list(world.cells.columns)
        if cols[0] != "pos" or sorted(cols[1:], key=repr) != sorted(live, key=repr):
            raise Violation("columns", f"{where}: columns are {cols}, expected pos + {sorted(live, key=repr)}")
        if len(world.cells) != n:
            raise Violation("row-count", f"{where}: {len(world.cells)} rows, expected {n}")
        pos = [tuple(p) for p in world.cells["pos"]]
        if pos != cells:
            raise Violation("pos-disturbed", f"{where}: position column changed: {pos[:6]}...")
        for name, exp in live.items():
            col = world.cells[name]
            for i, p in enumerate(cells):
                got = col[i]
                if not same(got, exp[i]):
                    raise Violation("cell-value", f"{where}: shape {(w, h, d)} component {name!r}: cell id {i} at {p} holds {got!r}, "
                                                  f"its source assigns {exp[i]!r}")
            for i, p in enumerate(cells):
                try:
                    row = world.get_cell(*p)
                except Exception as e:
                    raise Violation("get-cell-raised", f"{where}: get_cell{p} raised {type(e).__name__}: {e}")
                if not same(row[name], exp[i]):
                    raise Violation("cell-value-via-get-cell", f"{where}: component {name!r}: get_cell{p}[{name!r}] = {row[name]!r}, expected {exp[i]!r}")

    verify("fresh world")
    world2 = None
    if len(case["ops"]) % 2:
        # a second grid world of another shape, created afterwards and alive throughout, with a cell component of the SAME name
        world2 = DiscreteWorld(Model(), 2, 3, 0)
        world2.add_cell_component(NAMES[0], [10, 11, 12, 13, 14, 15])
        labels.add("second-world-alive")
    for k, op in enumerate(case["ops"]):
        maybe_complete(case, k, world.model, labels)
        where = f"after op {k} {_short(op)}"
        if op["op"] == "add":
            name = names[int(op["name"]) % NNAMES]
            overwrite = name in live
            if overwrite and not op.get("again"):
                continue
            src = op["src"]
            kind = src["kind"]
            if src.get("vtype") == "hugepow" and kind not in ("const", "callable", "list"):
                src = dict(src, vtype="bigint")
            if kind == "lookup" and src.get("vtype") in ("tuple", "list2", "dict", "mixed", "nonebool"):
                src = dict(src, numpy=False)        # composite table entries: a nested-list table (an array would grow a dimension)
            elif src.get("vtype") in ("tuple", "list2", "seq1", "cells", "mixed", "dict", "set", "bytes", "nonebool") and kind not in ("const", "callable", "list"):
                src = dict(src, vtype="int")        # sequence-valued / mixed cells only through generators and plain lists
            if kind == "list" and src.get("vtype") == "cells":
                src = dict(src, vtype="tuple")
            exp = [value(src, p) for p in cells]
            keep = None
            if kind == "callable" and src.get("vtype") == "cells":
                src = dict(src, vtype="tuple")
                exp = [value(src, p) for p in cells]
            dropped, frame_errors = [], []
            if kind == "callable":
                seen = []
                other = sorted(live, key=repr)[int(src.get("other", 0)) % len(live)] if live and (src.get("derive") or src.get("drop_at") is not None) else None
                drop_at = int(src["drop_at"]) % n if other is not None and src.get("drop_at") is not None else None

                def gen(pos, frame, _src=src, _seen=seen, _other=other, _drop=drop_at):
                    # a 'derived' component: the generator is handed the cell table and may consult the layers that exist, and
                    # may tidy up a scratch layer it no longer needs (a re-entrant removal while the addition is in progress)
                    if _other is not None and not dropped and src.get("derive"):
                        i = cells.index(tuple(pos))
                        try:
                            if not same(frame[_other].iloc[i], live[_other][i]):
                                frame_errors.append(f"cell {i}: table handed to the generator shows {_other!r} = {frame[_other].iloc[i]!r}, expected {live[_other][i]!r}")
                        except Exception as e:      # noqa
                            frame_errors.append(f"cell {i}: reading {_other!r} from the table handed to the generator raised {type(e).__name__}: {e}")
                    if _drop is not None and len(_seen) == _drop:
                        world.remove_cell_component(_other)
                        dropped.append(_other)
                    _seen.append(tuple(pos))
                    return value(_src, pos)
                # the same generator dressed as a plain function, a functor object, or a user subclass of one of the bundled
                # generators that overrides __call__ (the documented contract is "an object with __call__")
                how = src.get("functor", "function")
                if how == "object":
                    gen = type("Functor", (), {"__call__": staticmethod(gen)})()
                elif how == "const_sub":
                    gen = type("OffsetConstant", (ConstantGenerator,), {"__call__": lambda self, pos, frame, _g=gen: _g(pos, frame)})(-12345)
                elif how == "lookup_sub":
                    gen = type("ShiftedLookup", (LookupGenerator,), {"__call__": lambda self, pos, frame, _g=gen: _g(pos, frame)})([[[-1]]])
                if how != "function":
                    labels.add(f"callable-{how}")
                source = gen
                nontrivial_src = nontrivial_src or int(src.get("mult", 1)) != 0
            elif kind == "list":
                source = list(exp)
                keep = source
            elif kind == "array":
                if src.get("vtype") == "str":
                    src = dict(src, vtype="int")
                    exp = [value(src, p) for p in cells]
                source = np.array(exp, dtype=np.float64 if src.get("vtype") in ("float", "bigfloat") else np.int64)
                keep = source
            elif kind == "const":
                c = value(src, (0, 0, 0))
                if src.get("vtype") == "cells":          # a sequence-valued constant that happens to have one entry per cell
                    c = tuple(range(n))
                exp = [c] * n
                source = ConstantGenerator(c)
            elif kind == "lookup":
                dims = 3
                lowdim = bool(src.get("lowdim"))
                if lowdim and h == 0 and d == 0:
                    dims = 1
                elif lowdim and d == 0 and h > 0:
                    dims = 2
                if dims < 3 and "F4" in LIVE:
                    dims = 3
                    excluded += 1
                if dims == 1:
                    table = [value(src, (x, 0, 0)) for x in range(ew)]
                elif dims == 2:
                    table = [[value(src, (x, y, 0)) for y in range(eh)] for x in range(ew)]
                else:
                    table = [[[value(src, (x, y, z)) for z in range(ed)] for y in range(eh)] for x in range(ew)]
                if src.get("numpy") and src.get("vtype") != "str":
                    table = np.array(table)
                labels.add(f"lookup-{dims}d")
                source = LookupGenerator(table)
                nontrivial_src = nontrivial_src or int(src.get("mult", 1)) != 0
            else:
                raise InvalidCase(kind)
            try:
                if k % 5 == 4:
                    world.addCellComponent(name, source)        # the deprecated spelling is still an entry point
                    labels.add("deprecated-aliases")
                else:
                    world.add_cell_component(name, source)
            except Exception as e:
                if overwrite:           # a world may refuse to add a second component under a live name: then nothing changes
                    labels.add("re-add-refused")
                    for o in dropped:
                        del live[o]
                    verify(where + " (re-adding under a live name was refused)")
                    continue
                raise Violation("lookup-add-raised" if kind == "lookup" else "add-raised",
                                f"{where}: shape {(w, h, d)}: add_cell_component raised {type(e).__name__}: {e}")
            for o in dropped:
                live.pop(o, None)
                labels.add("generator-removes-another-component")
            if overwrite:               # the component now holds what the NEW source assigns
                labels.add("re-added-under-live-name")
                live.pop(name, None)
            live[name] = exp
            if frame_errors:
                raise Violation("generator-frame", f"{where}: shape {(w, h, d)}: {frame_errors[0]}")
            if kind == "callable" and src.get("derive") and other is not None:
                labels.add("generator-reads-another-component")
            labels.add(f"src-{kind}")
            if kind == "callable" and sorted(seen) != sorted(cells):
                raise Violation("generator-calls", f"{where}: the generator was called for {len(seen)} positions, expected each of the {n} cells once")
            if keep is not None:           # overwrite the caller's buffer: must not show through
                for i in range(len(keep)):
                    keep[i] = -777 if not isinstance(keep[i], (str, tuple, list)) else "overwritten"
                labels.add("aliasing-probe")
        elif op["op"] == "remove":
            name = names[int(op["name"]) % NNAMES]
            if name in live:
                if len(live) >= 2:
                    removed_with_two = True
                world.remove_cell_component(name)
                del live[name]
                labels.add("remove")
            else:
                expect_raises("unknown-remove-error", ComponentNotFoundError, world.remove_cell_component, name)
                labels.add("remove-unknown")
        elif op["op"] == "use":
            # the grid's other services in between: a neighbourhood spanning the whole world (and a small one), both handed back as
            # lists which the caller sorts / reverses / empties
            big = max(w, h, d, 1)
            for r_, incl_, ret_ in ((big, True, tuple), (big, True, int), (1, False, tuple)):
                for fn_ in (world.get_moore_neighbours, world.get_neumann_neighbours):
                    res_ = fn_((0, 0, 0), r_, incl_, ret_)
                    if isinstance(res_, list):
                        res_.reverse()
                        del res_[:1]
            labels.add("other-services-used")
        elif op["op"] == "remove_unknown":
            expect_raises("unknown-remove-error", ComponentNotFoundError, world.remove_cell_component, "never-added")
            labels.add("remove-unknown")
        else:
            raise InvalidCase(op)
        look = ("every", "every", "sparse", "end")[len(case["ops"]) % 4]      # how often the table is inspected between operations
        if look == "every" or (look == "sparse" and k % 3 == 2) or k == len(case["ops"]) - 1:
            verify(where)
        if world2 is not None and (list(world2.cells.columns) != ["pos", NAMES[0]] or list(world2.cells[NAMES[0]]) != [10, 11, 12, 13, 14, 15]):
            raise Violation("other-world-disturbed", f"{where}: a second world holding {NAMES[0]!r} = 10..15 now has columns "
                                                     f"{list(world2.cells.columns)} / values {list(world2.cells.get(NAMES[0], []))}")
    return {"nontrivial": multi_axis and nontrivial_src and removed_with_two,
            "labels": sorted(labels) + (["columns>=32"] if NNAMES > 32 else []) + [f"zero-axes-{''.join('0' if e == 0 else 'n' for e in (w, h, d))}"], "excluded": excluded}


def _short(op):
    return {k: v for k, v in op.items()}


def strategy(tier):
    ext = lambda n: wone_of(st.just(0), st.integers(1, n))
    shape = wone_of(
        st.builds(lambda w, h, d: {"kind": "discrete", "w": w, "h": h, "d": d}, ext(6), ext(5), ext(4)),
        st.builds(lambda w, h, d: {"kind": "discrete", "w": w, "h": h, "d": d}, st.integers(2, 6), st.integers(2, 5), ext(3)),
        st.builds(lambda w, h, d: {"kind": "discrete", "w": w, "h": h, "d": d}, ext(4), st.integers(1, 5), st.integers(2, 4)),
        st.builds(lambda w, h: {"kind": "grid", "w": w, "h": h, "d": 0}, st.integers(2, 7), st.integers(1, 6)),
        st.builds(lambda w: {"kind": "line", "w": w, "h": 0, "d": 0}, st.integers(1, 12)),
        st.builds(lambda w, h: {"kind": "grid", "w": w, "h": h, "d": 0}, st.integers(1, 7), st.integers(1, 6)),
    )
    src = st.fixed_dictionaries({
        "kind": st.sampled_from(["callable", "callable", "list", "array", "const", "lookup", "lookup"]),
        "mult": st.sampled_from([1, 1, 3, -2, 7]), "off": st.integers(-50, 50),
        "vtype": st.sampled_from(["int", "int", "float", "str", "tuple", "list2", "cells", "mixed", "dict", "set", "bytes", "nonebool", "bigint", "bigfloat", "hugepow", "seq1", "seq1"]),
        "lowdim": st.booleans(), "numpy": st.booleans(), "derive": st.sampled_from([False, False, True]), "functor": st.sampled_from(["function", "function", "object", "const_sub", "lookup_sub"]),
        "other": st.integers(0, 3), "drop_at": st.sampled_from([None, None, None, None, 0, 1, 2, 5, -1])})
    name = st.integers(0, 3)
    op = wone_of(st.fixed_dictionaries({"op": st.just("add"), "name": name, "src": src, "again": st.booleans()}),
                   st.fixed_dictionaries({"op": st.just("add"), "name": name, "src": src, "again": st.booleans()}),
                   st.fixed_dictionaries({"op": st.just("add"), "name": name, "src": src, "again": st.booleans()}),
                   st.fixed_dictionaries({"op": st.just("remove"), "name": name}),
                   st.fixed_dictionaries({"op": st.just("remove_unknown")}), st.just({"op": "use"}))
    from vf.fixtures import near_pow2
    small_shape = st.sampled_from([{"kind": "line", "w": 3, "h": 0, "d": 0}, {"kind": "grid", "w": 3, "h": 2, "d": 0},
                                   {"kind": "discrete", "w": 2, "h": 0, "d": 3}])
    cheap = st.fixed_dictionaries({"kind": st.sampled_from(["callable", "list", "array", "array", "const"]),
                                   "mult": st.sampled_from([1, 3, -2]), "off": st.integers(-50, 50),
                                   "vtype": st.sampled_from(["int", "float", "str"]), "lowdim": st.just(False), "numpy": st.just(False)})
    many = near_pow2(31, 66).flatmap(lambda n: st.builds(
        lambda s_, srcs, tail: dict(s_, names=n + 2, ops=[{"op": "add", "name": i, "src": srcs[i % len(srcs)]} for i in range(n)] + tail),
        small_shape, st.lists(cheap, min_size=3, max_size=6),
        sized_lists(wone_of(st.fixed_dictionaries({"op": st.just("add"), "name": st.integers(0, 79), "src": cheap}),
                            st.fixed_dictionaries({"op": st.just("remove"), "name": st.integers(0, 79)})), 1, 6)))
    small = _small(shape, op)
    # a layer that is regenerated: the same name, a source of the same kind whose values are "almost the same"
    pair = st.sampled_from([("bigint", "bigfloat"), ("bigfloat", "bigint"), ("int", "float"), ("float", "int"), ("int", "str")])
    refresh = st.builds(lambda s_, kind_, vt, m_, o_: dict(s_, ops=[
        {"op": "add", "name": 0, "src": {"kind": kind_, "mult": m_, "off": o_, "vtype": vt[0], "lowdim": False, "numpy": True}},
        {"op": "add", "name": 1, "src": {"kind": "const", "mult": 0, "off": 7, "vtype": "int", "lowdim": False, "numpy": False}},
        {"op": "add", "name": 0, "again": True, "src": {"kind": kind_, "mult": m_ * (8 if vt == ("int", "float") else 1), "off": o_ * (8 if vt == ("int", "float") else 1),
                                                       "vtype": vt[1], "lowdim": False, "numpy": True}}]),
        small_shape, st.sampled_from(["array", "array", "list", "callable"]), pair, st.sampled_from([1, 3]), st.integers(0, 20))
    def fixed_src(kind_, vt_):
        return st.fixed_dictionaries({"kind": kind_, "mult": st.sampled_from([1, 3, -2]), "off": st.integers(-20, 20), "vtype": vt_,
                                      "lowdim": st.booleans(), "numpy": st.just(False), "derive": st.just(False), "functor": st.just("function"),
                                      "other": st.just(0), "drop_at": st.just(None)})
    # families built by construction (so that detection does not hinge on one seed): lookup tables whose entries are composite values,
    # and one-element sequences in worlds whose other axes have extent 1
    lookupc = st.builds(lambda s_, a, b: dict(s_, ops=[{"op": "add", "name": 0, "src": a, "again": False}, {"op": "add", "name": 1, "src": b, "again": False}]),
                        shape, fixed_src(st.just("lookup"), st.sampled_from(["tuple", "dict", "list2", "mixed", "seq1"])),
                        fixed_src(st.sampled_from(["lookup", "callable", "list"]), st.sampled_from(["tuple", "int", "seq1"])))
    thin_shape = st.builds(lambda w, k: [{"kind": "grid", "w": w, "h": 1, "d": 0}, {"kind": "discrete", "w": w, "h": 1, "d": 1},
                                         {"kind": "discrete", "w": w, "h": 0, "d": 1}, {"kind": "discrete", "w": w, "h": 1, "d": 0},
                                         {"kind": "line", "w": w, "h": 0, "d": 0}][k], st.integers(1, 6), st.integers(0, 4))
    thin = st.builds(lambda s_, a, b: dict(s_, ops=[{"op": "add", "name": 0, "src": a, "again": False}, {"op": "add", "name": 1, "src": b, "again": False}]),
                     thin_shape, fixed_src(st.sampled_from(["list", "list", "callable", "const"]), st.just("seq1")),
                     fixed_src(st.sampled_from(["list", "array"]), st.sampled_from(["int", "seq1", "tuple"])))
    return with_done(wone_of(*([small] * 10 + [refresh, refresh, many, lookupc, thin])))


def _small(shape, op):
    return st.builds(lambda s, ops, x: dict(s, ops=ops, xnames=True) if x else dict(s, ops=ops), shape, wone_of(sized_lists(op, 1, 14), sized_lists(op, 5, 14)), st.sampled_from([False, False, False, True]))
