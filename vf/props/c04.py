"""C04 - the environment holds exactly the live agents; failed operations leave no trace."""
import inspect

from hypothesis import strategies as st

import ECAgent.Core as Core
import ECAgent.Environments as Envs
from ECAgent.Core import Agent, AgentNotFoundError, DuplicateAgentError, Model
from ECAgent.Environments import DiscreteWorld, GridWorld, LineWorld, SpaceWorld, PositionComponent
from vf.engine import Violation, InvalidCase
from vf.fixtures import maybe_complete, with_done, CompA, CompB, CompC, CompF, check, sized_lists, wone_of

PROPERTY = "C04"
LEVEL = "fault_enumeration"
BUDGET = {"quick": 2000, "thorough": 6000}
RULE = ("One environment (plain, continuous SpaceWorld, DiscreteWorld, LineWorld, GridWorld; extents 0 or >= 1 per axis, continuous extents also fractional below 1, "
        "non-cubic), 7 agent OBJECTS over 4 ids (colliding ids) with fixed component sets; histories (1-30 ops) of add(obj[, "
        "pos in range / on the far boundary / out of bounds on a chosen positive axis and side]), remove(id present/unknown), "
        "get_agent(id[, strict]). After EVERY op the full observable state (iteration order, len, get_agents(), get_agent of "
        "every pool id, listing of every component type, component-type set and position of every pool object) is compared "
        "with an insertion-ordered map model. FAULT ENUMERATION: after each of the first 12 ops every applicable error path "
        "(duplicate add of each resident id with a different object, unknown remove / strict lookup, out-of-bounds placement "
        "on each positive axis x both sides, also combined with a duplicate id) is injected once and the state snapshot must "
        "be identical before and after, with the documented error type. Non-trivial: a rejected op in a state with >= 2 "
        "residents and a removal of a resident that is neither first nor last. Distinct = digest of the case."
        " Added in rounds 19-24: the model may be marked complete before operation k; an operation 'use' exercises the environment's other services in between (shuffle whose result is edited, random picks, loops left early, len).")
ASSUMPTIONS = ["agents' component sets are not modified while resident (that is C03's dimension)",
               "out-of-bounds placement is documented as plain Exception (with a TODO for a dedicated class): accepted are "
               "Exception itself, exception classes defined in an ECAgent module, IndexError, ValueError",
               "duplicate id AND out of bounds: either documented error"]

TYPES = [CompA, CompB, CompF]     # CompF instances are falsy
ECAGENT_EXC = tuple(c for mod in (Core, Envs) for _, c in inspect.getmembers(mod, inspect.isclass)
                    if issubclass(c, Exception) and c.__module__.startswith("ECAgent"))


def oob_error_ok(e):
    return type(e) is Exception or isinstance(e, ECAGENT_EXC) or isinstance(e, (IndexError, ValueError))


def build(case):
    m = Model()
    env = case["env"]
    kind = env["kind"]
    e = [int(v) for v in env.get("ext", (0, 0, 0))]
    wrap = bool(env.get("wrap"))
    if kind == "plain":
        return m, m.environment, None, 0
    if kind == "space":
        w = SpaceWorld(m, e[0] / 8.0, e[1] / 8.0, e[2] / 8.0, wrap_env=wrap)
        ext, unit = e, 1                       # everything in eighths
    else:
        if kind == "line":
            if e[0] < 1:
                raise InvalidCase("ext")
            w = LineWorld(m, e[0], wrap_env=wrap)
            e = [e[0], 0, 0]
        elif kind == "grid":
            if e[0] < 1 or e[1] < 1:
                raise InvalidCase("ext")
            w = GridWorld(m, e[0], e[1], wrap_env=wrap)
            e = [e[0], e[1], 0]
        elif kind == "discrete":
            w = DiscreteWorld(m, e[0], e[1], e[2], wrap_env=wrap)
        else:
            raise InvalidCase(kind)
        ext, unit = e, 8
    m.set_environment(w)
    return m, w, ext, unit


class Ctx:
    pass


def run_case(case):
    model, env, ext, unit = build(case)
    kind = case["env"]["kind"]
    spatial = kind != "plain"
    decoy = None
    if case.get("decoy"):
        # a second model with an environment of the same kind, alive throughout, holding agents with the SAME identifiers:
        # environments are independent of each other
        dmodel, denv, _, _ = build(case)
        decoy = [Agent(f"a{k}", dmodel) for k in range(3)]
        for d in decoy:
            d.add_component(CompA(d, dmodel))
            denv.add_agent(d, *((0, 0, 0) if spatial else ()))
    NOBJ = max(1, min(int(case.get("nobj", 7)), 200))           # agent objects (large cases cross size thresholds)
    NIDS = max(1, min(int(case.get("nids", 4)), 190))           # distinct identifiers among them
    masks = (list(case.get("objs", [])) + [1] * NOBJ)[:NOBJ]
    objs = []
    owners = (list(case.get("owners", [])) + [0] * NOBJ)[:NOBJ]   # 0: built for the environment's model, 1: for no model, 2: for another model
    other_model = Model() if 2 in [int(o) % 3 for o in owners] else None
    for k, mask in enumerate(masks):
        owner = {0: model, 1: None, 2: other_model}[int(owners[k]) % 3]
        a = Agent(f"a{k % NIDS}", owner)
        for ti, t in enumerate(TYPES):
            if int(mask) >> ti & 1:
                a.add_component(t(a, owner))
        objs.append(a)
    spare = [Agent(f"a{k}", model) for k in range(NIDS)]      # fresh objects for injected duplicate adds
    for s in spare:
        s.add_component(CompA(s, model))
    stranger = Agent("stranger", model)
    stranger.add_component(CompB(stranger, model))
    everybody = objs + spare + [stranger]
    resident = {}            # id -> object (insertion ordered)
    where = {}               # id(obj) -> position tuple handed to add_agent
    labels = set()
    stats = {"rejected_with_2": False, "middle_removal": False}

    def hi(ax):              # largest legal coordinate (in ECAgent units) on a positive axis
        return ext[ax] / 8.0 if kind == "space" else ext[ax] - 1

    def to_pos(spec):
        """returns (args, oob)"""
        if not spatial:
            return (), False
        mode = spec.get("mode", "in")
        f = list(spec.get("f", (0, 0, 0))) + [0, 0, 0]
        pos = []
        for ax in range(3):
            if ext[ax] <= 0:
                pos.append(0)
            elif kind == "space":
                pos.append((int(f[ax]) % (ext[ax] + 1)) / 8.0)
            else:
                pos.append(int(f[ax]) % ext[ax])
        positive = [ax for ax in range(3) if ext[ax] > 0]
        oob = False
        if mode == "edge":
            for ax in positive:
                pos[ax] = hi(ax)
        elif mode == "oob" and positive:
            ax = positive[int(spec.get("axis", 0)) % len(positive)]
            step = 0.125 if kind == "space" else 1
            far = int(spec.get("far", 0))
            pos[ax] = (-step - far) if int(spec.get("side", 0)) % 2 == 0 else (hi(ax) + step + far)
            oob = True
        return tuple(pos), oob

    def snapshot():
        it = [a.id for a in env]
        listing = env.get_agents()
        listed = [id(a) for a in listing]
        # the caller does what it likes with the list it was handed (sorts it, pops from it): later listings must not notice
        if len(listing) >= 2:
            listing.reverse()
        else:
            listing.append("junk")
        snap = {
            "iter": it,
            "iter_objs": [id(a) for a in env],
            "len": len(env),
            "get_agents": listed,
            "get_agents_again": [id(a) for a in env.get_agents()],
            "lookup": {i: id(env.get_agent(f"a{i}")) if env.get_agent(f"a{i}") is not None else None for i in range(NIDS)},
            "lookup_unknown": env.get_agent("zz"),
            "listings": {t.__name__: ([id(c) for c in model.systems[t]] if model.systems[t] is not None else None) for t in TYPES},
            "objects": {n: (sorted(t.__name__ for t in o.components),
                            o[PositionComponent].xyz() if o[PositionComponent] is not None else None)
                        for n, o in enumerate(everybody)},
        }
        return snap

    def expected():
        res = list(resident.values())
        return {
            "iter": [a.id for a in res],
            "iter_objs": [id(a) for a in res],
            "len": len(res),
            "get_agents": [id(a) for a in res],
            "get_agents_again": [id(a) for a in res],
            "lookup": {i: (id(resident[f"a{i}"]) if f"a{i}" in resident else None) for i in range(NIDS)},
            "lookup_unknown": None,
            "listings": {t.__name__: ([id(a[t]) for a in res if a[t] is not None] or None) for t in TYPES},
            "objects": {n: (sorted([t.__name__ for t in TYPES if o[t] is not None] + (["PositionComponent"] if spatial and id(o) in where else [])),
                            tuple(where[id(o)]) if spatial and id(o) in where else None)
                        for n, o in enumerate(everybody)},
        }

    def compare(tag):
        got, exp = snapshot(), expected()
        for key in exp:
            if got[key] != exp[key]:
                clause = {"iter": "iteration-order", "iter_objs": "iteration-order", "len": "length", "get_agents": "get-agents", "get_agents_again": "get-agents-after-the-caller-edited-an-earlier-result",
                          "lookup": "lookup", "lookup_unknown": "lookup", "listings": "component-listing",
                          "objects": "agent-components"}[key]
                raise Violation(clause, f"{tag}: {key} is {_fmt(got[key])}, expected {_fmt(exp[key])} (residents {list(resident)})")
        for i in range(NIDS):
            sid = f"a{i}"
            if sid in resident:
                if env.get_agent(sid, True) is not resident[sid]:
                    raise Violation("lookup", f"{tag}: strict lookup of {sid} returned a different object")
        return got

    def must_reject(tag, fn, kinds):
        """kinds: subset of {'dup','unknown','oob'}; state must be untouched"""
        before = snapshot()
        try:
            fn()
        except Exception as e:
            ok = ("dup" in kinds and isinstance(e, DuplicateAgentError)) or \
                 ("unknown" in kinds and isinstance(e, AgentNotFoundError)) or \
                 ("oob" in kinds and oob_error_ok(e) and not isinstance(e, (DuplicateAgentError, AgentNotFoundError)))
            if not ok:
                raise Violation("wrong-error-" + "+".join(sorted(kinds)), f"{tag}: raised {type(e).__name__}: {e}")
        else:
            raise Violation("not-rejected-" + "+".join(sorted(kinds)), f"{tag}: the operation succeeded (residents {list(resident)})")
        after = snapshot()
        if after != before:
            diff = [k for k in before if before[k] != after[k]]
            raise Violation("rejected-op-left-trace", f"{tag}: after the rejected operation {diff} changed: "
                                                      f"{ {k: (_fmt(before[k]), _fmt(after[k])) for k in diff} }")
        if len(resident) >= 2:
            stats["rejected_with_2"] = True

    def inject_all(tag):
        positive = [ax for ax in range(3) if spatial and ext[ax] > 0]
        inpos, _ = to_pos({"mode": "in", "f": (1, 1, 1)})
        dup_targets = list(resident) if len(resident) <= 8 else list(resident)[:3] + list(resident)[-3:]
        for sid in dup_targets:
            other = spare[int(sid[1:])]
            if other is resident[sid]:
                continue
            must_reject(f"{tag} + injected duplicate add of {sid}", lambda o=other: env.add_agent(o, *inpos), {"dup"})
        must_reject(f"{tag} + injected unknown remove", lambda: env.remove_agent("zz"), {"unknown"})
        must_reject(f"{tag} + injected strict unknown lookup", lambda: env.get_agent("zz", True), {"unknown"})
        for i in range(min(NIDS, 6)):
            if f"a{i}" not in resident:
                must_reject(f"{tag} + injected remove of absent a{i}", lambda s=f"a{i}": env.remove_agent(s), {"unknown"})
                must_reject(f"{tag} + injected strict lookup of absent a{i}", lambda s=f"a{i}": env.get_agent(s, True), {"unknown"})
        for ax in positive:
            for side in (0, 1):
                pos, _ = to_pos({"mode": "oob", "axis": positive.index(ax), "side": side, "f": (1, 1, 1)})
                must_reject(f"{tag} + injected out-of-bounds add at {pos}", lambda p=pos: env.add_agent(stranger, *p), {"oob"})
                for sid in list(resident)[:1]:
                    other = spare[int(sid[1:])]
                    must_reject(f"{tag} + injected duplicate AND out-of-bounds add at {pos}",
                                lambda p=pos, o=other: env.add_agent(o, *p), {"oob", "dup"})
        labels.add("faults-injected")

    compare("fresh environment")
    for k, op in enumerate(case["ops"]):
        maybe_complete(case, k, model, labels)
        tag = f"after op {k} {op}"
        kind_op = op["op"]
        if kind_op == "add":
            o = objs[int(op["o"]) % NOBJ]
            pos, oob = to_pos(op.get("pos", {}))
            dup = o.id in resident
            if dup or oob:
                kinds = ({"dup"} if dup else set()) | ({"oob"} if oob else set())
                must_reject(tag, lambda: env.add_agent(o, *pos), kinds)
                labels.add("rejected-" + "+".join(sorted(kinds)))
            else:
                try:
                    if not spatial and k % 5 == 2:
                        env.addAgent(o)                 # the deprecated spelling is still an entry point
                        labels.add("deprecated-aliases")
                    else:
                        env.add_agent(o, *pos)
                except Exception as e:
                    raise Violation("valid-add-raised", f"{tag}: adding {o.id} at {pos} raised {type(e).__name__}: {e}")
                resident[o.id] = o
                where[id(o)] = pos
                if op.get("pos", {}).get("mode") == "edge":
                    labels.add("boundary-placement")
        elif kind_op == "remove":
            i = int(op.get("id", 0)) % (NIDS + 1)
            sid = f"a{i}" if i < NIDS else "zz"
            if "k" in op and resident:
                sid = list(resident)[int(op["k"]) % len(resident)]
            if sid in resident:
                keys = list(resident)
                if 0 < keys.index(sid) < len(keys) - 1:
                    stats["middle_removal"] = True
                try:
                    if k % 5 == 3:
                        env.removeAgent(sid)
                        labels.add("deprecated-aliases")
                    else:
                        env.remove_agent(sid)
                except Exception as e:
                    raise Violation("valid-remove-raised", f"{tag}: removing resident {sid} raised {type(e).__name__}: {e}")
                where.pop(id(resident.pop(sid)), None)
            else:
                must_reject(tag, lambda: env.remove_agent(sid), {"unknown"})
                labels.add("rejected-unknown-remove")
        elif kind_op == "get":
            i = int(op["id"]) % (NIDS + 1)
            sid = f"a{i}" if i < NIDS else "zz"
            if sid in resident:
                got = env.get_agent(sid, True) if op.get("strict") else (env.getAgent(sid) if k % 2 else env.get_agent(sid))
                if got is not resident[sid]:
                    raise Violation("lookup", f"{tag}: returned {got!r}")
            elif op.get("strict"):
                must_reject(tag, lambda: env.get_agent(sid, True), {"unknown"})
            elif env.get_agent(sid) is not None:
                raise Violation("lookup", f"{tag}: lenient lookup of absent {sid} returned {env.get_agent(sid)!r}")
        elif kind_op == "use":
            # the environment's other services are used in between (random picks, shuffled listings that the caller edits, loops that
            # are left early, len / in): reading the environment does not change who is in it, nor the joining order
            lst = env.shuffle()
            if isinstance(lst, list):
                lst.reverse()
                del lst[:1]
            env.get_random_agent()
            for _a in env:
                break
            next(iter(env), None)
            len(env)
            labels.add("other-services-used")
        else:
            raise InvalidCase(op)
        look = ("every", "every", "sparse", "end")[len(case["ops"]) % 4]      # how often the full state is inspected between operations
        if look == "every" or (look == "sparse" and k % 3 == 2):
            compare(tag)
        if (k < 12 or (NOBJ > 16 and k >= len(case["ops"]) - 6)) and look == "every":
            inject_all(tag)
            compare(tag + " (after fault injection)")
    compare("at the end")
    if NOBJ > 64:
        labels.add("population>64")
    if decoy is not None:
        labels.add("second-environment-alive")
        got = ([a.id for a in denv], [id(c.agent) for c in dmodel.systems[CompA] or []])
        if got != ([d.id for d in decoy], [id(d) for d in decoy]) or any(denv.get_agent(d.id) is not d for d in decoy):
            raise Violation("other-environment-disturbed", f"a second environment of the same kind held a0..a2 with one CompA each throughout; it now "
                                                           f"holds {got[0]} and its model lists {len(got[1])} CompA")
    return {"nontrivial": stats["rejected_with_2"] and stats["middle_removal"], "labels": sorted(labels) + [f"env-{kind}"]}


def _fmt(v):
    s = repr(v)
    return s if len(s) < 300 else s[:300] + "..."


def strategy(tier):
    ext0 = lambda hi: wone_of(st.just(0), st.integers(1, hi))
    env = wone_of(
        st.just({"kind": "plain"}),
        st.builds(lambda a, b, c, w: {"kind": "space", "ext": [a, b, c], "wrap": w}, st.sampled_from([0, 4, 8, 20, 40, 64]),
                  st.sampled_from([0, 6, 8, 12, 40]), st.sampled_from([0, 2, 8, 24]), st.booleans()),
        st.builds(lambda a, b, c, w: {"kind": "discrete", "ext": [a, b, c], "wrap": w}, ext0(5), ext0(4), ext0(3), st.booleans()),
        st.builds(lambda a, w: {"kind": "line", "ext": [a, 0, 0], "wrap": w}, st.integers(1, 8), st.booleans()),
        st.builds(lambda a, b, w: {"kind": "grid", "ext": [a, b, 0], "wrap": w}, st.integers(1, 6), st.integers(1, 5), st.booleans()),
    )
    pos = st.fixed_dictionaries({"mode": st.sampled_from(["in", "in", "in", "edge", "oob"]), "axis": st.integers(0, 2),
                                 "side": st.integers(0, 1), "far": st.sampled_from([0, 0, 1, 1000]),
                                 "f": st.tuples(st.integers(0, 70), st.integers(0, 70), st.integers(0, 70)).map(list)})
    op = wone_of(st.fixed_dictionaries({"op": st.just("add"), "o": st.integers(0, 6), "pos": pos}),
                   st.fixed_dictionaries({"op": st.just("add"), "o": st.integers(0, 6), "pos": pos}),
                   st.fixed_dictionaries({"op": st.just("add"), "o": st.integers(0, 3), "pos": pos}),
                   st.fixed_dictionaries({"op": st.just("add"), "o": st.integers(0, 3), "pos": st.just({"mode": "in", "f": [1, 2, 3]})}),
                   st.fixed_dictionaries({"op": st.just("add"), "o": st.integers(0, 6), "pos": st.just({"mode": "edge"})}),
                   st.fixed_dictionaries({"op": st.just("remove"), "id": st.integers(0, 4)}),
                   st.fixed_dictionaries({"op": st.just("remove"), "k": st.integers(0, 3)}),
                   st.fixed_dictionaries({"op": st.just("get"), "id": st.integers(0, 4), "strict": st.booleans()}),
                   st.just({"op": "use"}))
    from vf.fixtures import near_pow2
    big_op = wone_of(st.fixed_dictionaries({"op": st.just("remove"), "k": st.integers(0, 300)}),
                     st.fixed_dictionaries({"op": st.just("remove"), "k": st.sampled_from([-1, -1, 0])}),
                     st.fixed_dictionaries({"op": st.just("add"), "o": st.integers(0, 300), "pos": st.just({"mode": "in", "f": [1, 2, 3]})}),
                     st.fixed_dictionaries({"op": st.just("get"), "id": st.integers(0, 300), "strict": st.booleans()}))
    large = near_pow2(33, 130).flatmap(lambda n: st.fixed_dictionaries({
        "env": env, "nobj": st.just(n + 4), "nids": st.just(n), "objs": st.just([]),
        "ops": st.builds(lambda tail: [{"op": "add", "o": i, "pos": {"mode": "in", "f": [i, 2 * i, 3 * i]}} for i in range(n)] + tail,
                         sized_lists(big_op, 2, 10))}))
    small = _small(env, op)
    return with_done(wone_of(*([small] * 14 + [large])))


def _small(env, op):
    return st.fixed_dictionaries({"env": env, "objs": st.lists(st.integers(0, 7), min_size=7, max_size=7),
                                  "decoy": st.sampled_from([False, False, False, True]),
                                  "owners": wone_of(st.just([]), st.just([]), st.lists(st.sampled_from([0, 0, 1, 2]), min_size=7, max_size=7)),
                                  "ops": wone_of(sized_lists(op, 1, 30), sized_lists(op, 6, 20))})
