"""C17 - collectors record faithfully: nothing invented, altered, lost or duplicated."""
import copy
import os
import sys
import tempfile

from hypothesis import strategies as st

from ECAgent.Core import Agent, Component, Model, System
from ECAgent.Collectors import AgentCollector, FileCollector
from vf.engine import Violation, InvalidCase
from vf.fixtures import check, sized_lists, wone_of

PROPERTY = "C17"
BUDGET = {"quick": 6000, "thorough": 18000}
RULE = ("AGENT cases: a population that changes between timesteps and DURING timesteps (a mutating system registered AFTER the "
        "collector, so only the collector's default priority -1 makes it observe the state the timestep's systems leave; variant "
        "with an explicit higher priority), per-agent function returning the agent's value (incl. 0) or nothing, composite "
        "function absent / returning None / {} / {'n': count}, includeTimestep, collector window (start/end/frequency), 1-12 "
        "timesteps. Oracle: reference population at the collector's turn => expected record per scheduled timestep (none when "
        "empty); records compared after EVERY step, deep copies of earlier records must never change. FILE cases: FileCollector "
        "subclass appending k_t (0-3) unique strings at its t-th collection, write_count 0-5, window, append mode with default "
        "clearing, a REAL file in a per-case temporary directory, 1-25 timesteps; after EVERY timestep (= every stop point): "
        "text_on_disk + ''.join(records) == everything collected so far, and text_on_disk == the first "
        "floor(c/(write_count+1))*(write_count+1) collections. Non-trivial: agent - population changes during a timestep with "
        ">= 1 agent yielding nothing and a non-default window; file - >= 2 flush cycles with write_count >= 1 and an empty "
        "collection inside a cycle. Distinct = digest of the case."
        " Added in rounds 19-24: the composite function may be a callable, empty (falsy) container; the mutating system uses the 'everybody but me' idiom on get_agents(), shuffle() and random picks.")
ASSUMPTIONS = ["agent ids never equal 'timestep' or a composite key", "file collector: filemode 'a' and clear_records_on_write=True "
               "(the defaults the property names)"]

MAXSIZE = sys.maxsize


class Val(Component):
    def __init__(self, agent, model, v):
        super().__init__(agent, model)
        self.v = v


def agent_value(agent):
    c = agent[Val]
    return None if c is None else c.v


class Mutator(System):
    def __init__(self, model, world, priority=0):
        super().__init__("mutator", model, priority=priority)
        self.world = world

    def execute(self):
        self.world.apply(self.world.during.get(self.model.systems.timestep, []))


class AWorld:
    def __init__(self, case):
        self.model = Model()
        self.pop = {}            # id -> value (None: agent without Val)
        self.n = 0
        self.during = {int(k): v for k, v in (case.get("during") or {}).items()}
        self.changed_during = False

    def apply(self, ops):
        for op in ops:
            if op["op"] == "join":
                if len(self.pop) >= 7:
                    continue
                aid = f"p{self.n}"
                self.n += 1
                a = Agent(aid, self.model)
                if op.get("val") is not None:
                    a.add_component(Val(a, self.model, int(op["val"])))
                self.model.environment.add_agent(a)
                self.pop[aid] = None if op.get("val") is None else int(op["val"])
            elif op["op"] == "leave":
                if not self.pop:
                    continue
                aid = list(self.pop)[int(op.get("k", 0)) % len(self.pop)]
                self.model.environment.remove_agent(aid)
                del self.pop[aid]
            elif op["op"] == "set":
                keys = [k for k, v in self.pop.items() if v is not None]
                if not keys:
                    continue
                aid = keys[int(op.get("k", 0)) % len(keys)]
                self.model.environment.get_agent(aid)[Val].v = int(op["val"])
                self.pop[aid] = int(op["val"])
            elif op["op"] == "use":
                # the usual "everybody but me" idiom and random picks: the caller edits the list it was handed
                others = self.model.environment.get_agents()
                if isinstance(others, list):
                    del others[:max(1, len(others) // 2)]
                sh = self.model.environment.shuffle()
                if isinstance(sh, list):
                    sh.clear()
                self.model.environment.get_random_agent()
            else:
                raise InvalidCase(op)


def scheduled(win, t):
    end = MAXSIZE if win.get("end") is None else int(win["end"])
    return int(win["start"]) <= t <= end and (t - int(win["start"])) % max(1, int(win["freq"])) == 0


def run_agent(case):
    w = AWorld(case)
    model = w.model
    win = case.get("window") or {"start": 0, "end": None, "freq": 1}
    comp_kind = case.get("composite", "absent")
    shared = {}                 # "shared": the composite function keeps ONE dict, refreshes it on every call and returns it

    def refresh(agents):
        shared["n"] = len(agents)
        return shared
    class Tally:
        """a callable object that is also a container (falsy while it is empty): a function all the same"""
        def __init__(self):
            self.seen = []

        def __len__(self):
            return len(self.seen)

        def __call__(self, agents):
            out = {"n": len(agents)}
            return out
    comp = {"absent": None, "tally": Tally(), "none": lambda agents: None, "empty": lambda agents: {},
            "count": lambda agents: {"n": len(agents)}, "shared": refresh,
            # composite data whose VALUES may be None / 0 / empty ("nobody is richest"): data all the same
            "nullable": lambda agents: {"n": len(agents), "top": None, "zero": 0, "blank": ""}}[comp_kind]
    kw = {"start": int(win["start"]), "frequency": max(1, int(win["freq"]))}
    if win.get("end") is not None:
        kw["end"] = int(win["end"])
    explicit = case.get("prio") == "explicit-high"
    if explicit:
        kw["priority"] = 5
    if case.get("positional"):      # the documented parameter order: model, agentFunc, compositeFunc, includeTimstep, id, priority, frequency, start[, end]
        coll = AgentCollector(model, agent_value, comp, bool(case.get("include_ts")), "AgentCollector", kw.get("priority", -1), kw["frequency"],
                              kw["start"], *([kw["end"]] if "end" in kw else []))
    else:
        coll = AgentCollector(model, agent_value, compositeFunc=comp, includeTimstep=bool(case.get("include_ts")), **kw)
    model.systems.add_system(coll)                      # registered BEFORE the mutating system
    model.systems.add_system(Mutator(model, w))
    w.apply(case.get("init", []))
    expected = []
    frozen = []
    steps = max(1, min(int(case.get("steps", 3)), 14))
    model2 = None
    if steps % 2:
        # a second model with its own AgentCollector (same id) and agents with the SAME ids but other values, stepped alongside:
        # collectors are independent of each other
        model2 = Model()
        coll2 = AgentCollector(model2, agent_value)
        model2.systems.add_system(coll2)
        for i in range(3):
            a2 = Agent(f"p{i}", model2)
            a2.add_component(Val(a2, model2, 900 + i))
            model2.environment.add_agent(a2)
    between = case.get("between") or {}
    yielding_nothing = False
    during_change = False
    for t in range(steps):
        w.apply(between.get(str(t), []))
        if explicit:
            seen = dict(w.pop)                 # runs before the mutator
        # mutator's effect is modelled by replaying its ops on the reference population: AWorld.apply does both at once,
        # so compute the expectation after the step from w.pop (default priority) or from `seen` (explicit priority)
        if model2 is not None:
            model2.execute()
        model.execute()
        if w.during.get(t):
            during_change = True
        view = seen if explicit else dict(w.pop)
        if scheduled(win, t):
            rec = {}
            if case.get("include_ts"):
                rec["timestep"] = t
            for aid, v in view.items():
                if v is not None:
                    rec[aid] = v
                else:
                    yielding_nothing = True
            if comp_kind in ("count", "shared", "nullable", "tally"):
                rec["n"] = len(view)
            if comp_kind == "nullable":
                rec.update({"top": None, "zero": 0, "blank": ""})
            if rec:
                expected.append(rec)
        got = coll.records
        if got != expected:
            clause = "record-missing" if len(got) < len(expected) else ("record-invented" if len(got) > len(expected) else "record-content")
            raise Violation(clause, f"after timestep {t}: window {win} prio={'5' if explicit else 'default'} composite={comp_kind}: "
                                    f"records {got[-3:]}, expected {expected[-3:]} (population at the collector's turn {view})")
        for i, old in enumerate(frozen):
            if got[i] != old:
                raise Violation("record-altered", f"after timestep {t}: record {i} changed from {old} to {got[i]}")
        if len(set(map(id, got))) != len(got):
            raise Violation("record-shared", f"after timestep {t}: the same dict object is stored twice")
        frozen = copy.deepcopy(got)
    nondefault = int(win["start"]) != 0 or win.get("end") is not None or int(win["freq"]) != 1
    labels = ["agent", f"composite-{comp_kind}", "prio-explicit" if explicit else "prio-default"]
    if model2 is not None:
        labels.append("second-collector-alive")
        if coll2.records != [{"p0": 900, "p1": 901, "p2": 902}] * steps:
            raise Violation("other-collector-disturbed", f"a second model's collector (agents p0..p2 worth 900..902, {steps} timesteps) holds {coll2.records[-3:]}")
    if nondefault:
        labels.append("window")
    if during_change:
        labels.append("changes-during-timestep")
    return {"nontrivial": during_change and yielding_nothing and nondefault, "labels": labels}


class StrCollector(FileCollector):
    def __init__(self, *a, ks=(), sink=None, **kw):
        super().__init__(*a, **kw)
        self.ks = list(ks)
        self.count = 0
        self.sink = sink

    def collect(self):
        k = self.ks[self.count % len(self.ks)] if self.ks else 1
        items = [f"<{self.count}.{j}>" for j in range(int(k) % 70)]
        self.count += 1
        self.sink.append(items)
        self.records.extend(items)


class OwnWriter(StrCollector):
    """the documented way of customising a file collector: collect() AND write_records() are overridden (no super call)"""

    def write_records(self):
        with open(self.filename, self.filemode) as fh:
            fh.write("".join(self.records))


def run_file(case):
    model = Model()
    win = case.get("window") or {"start": 0, "end": None, "freq": 1}
    wc = max(0, min(int(case.get("write_count", 0)), 200))
    kw = {"start": int(win["start"]), "frequency": max(1, int(win["freq"]))}
    if win.get("end") is not None:
        kw["end"] = int(win["end"])
    collected = []
    steps = max(1, min(int(case.get("steps", 5)), 400))
    with tempfile.TemporaryDirectory(prefix="vf_c17_") as tmp:
        sub = os.path.join(tmp, "dir")
        os.mkdir(sub)
        path = os.path.join(sub, "out.txt")
        outage = set(int(x) for x in case.get("outage", []))       # harness steps during which the target directory is away
        had_outage = False
        fm = case.get("filemode", "a")
        if fm not in ("a", "at", "a+", "ta"):
            raise InvalidCase("filemode")
        if fm != "a":
            kw["filemode"] = fm                     # other spellings of text append mode
        if case.get("positional") and "filemode" not in kw:
            # id, model, filename, priority, frequency, start, end, filemode, write_count - all in their documented positions
            coll = (OwnWriter if case.get("own_writer") else StrCollector)("fc", model, path, -1, kw["frequency"], kw["start"], kw.get("end", MAXSIZE), "a", wc,
                                                                           ks=case.get("ks") or [1], sink=collected)
        else:
            coll = (OwnWriter if case.get("own_writer") else StrCollector)("fc", model, path, write_count=wc, ks=case.get("ks") or [1], sink=collected, **kw)
        model.systems.add_system(coll)
        model2 = None
        if steps % 2:
            # a second model with a file collector of the same id writing ANOTHER file after every collection
            model2 = Model()
            sink2 = []
            path2 = os.path.join(tmp, "other.txt")
            model2.systems.add_system(StrCollector("fc", model2, path2, write_count=0, ks=[2], sink=sink2))
        for t in range(steps):
            if model2 is not None:
                model2.execute()
            if t in outage and os.path.isdir(sub):
                os.rename(sub, sub + ".away")
            elif t not in outage and not os.path.isdir(sub):
                os.rename(sub + ".away", sub)
            try:
                model.execute()
            except OSError:
                if t not in outage:
                    raise
                had_outage = True               # the flush failed: nothing may be lost, the collector may retry later
            c = len(collected)
            should = scheduled(win, t)
            disk = ""
            real = path if os.path.isdir(sub) else os.path.join(sub + ".away", "out.txt")
            if os.path.exists(real):
                with open(real) as fh:
                    disk = fh.read()
            everything = "".join(s for items in collected for s in items)
            held = "".join(coll.records)
            flushed = (c // (wc + 1)) * (wc + 1)
            want_disk = "".join(s for items in collected[:flushed] for s in items)
            if disk + held != everything:
                clause = "file-lost" if len(disk + held) < len(everything) else "file-duplicated"
                raise Violation(clause, f"after timestep {t} (collection {c}, write_count {wc}): on disk {disk!r} + held {held!r} != "
                                        f"collected {everything!r}")
            if disk != want_disk and not had_outage:        # after a failed flush the schedule is the collector's business; conservation is not
                raise Violation("flush-schedule", f"after timestep {t} (collection {c}, write_count {wc}): on disk {disk!r}, a whole-flush "
                                                  f"prefix of {flushed} collections is {want_disk!r}")
        if model2 is not None:
            with open(path2) as fh:
                text2 = fh.read()
            want2 = "".join(f"<{i}.0><{i}.1>" for i in range(steps))
            if text2 != want2 or model2.systems["fc"].records:
                raise Violation("other-collector-disturbed", f"a second file collector (2 records per timestep, flushed every time, {steps} timesteps) "
                                                             f"wrote {text2[-40:]!r} and holds {model2.systems['fc'].records[-3:]}")
    c = len(collected)
    cycles = c // (wc + 1)
    empty_inside = any(len(items) == 0 for items in collected[:cycles * (wc + 1)])
    biggest = max((sum(len(i) for i in collected[j:j + wc + 1]) for j in range(0, cycles * (wc + 1), wc + 1)), default=0)
    return {"nontrivial": cycles >= 2 and wc >= 1 and empty_inside,
            "labels": (["flush-failed-and-recovered"] if had_outage else []) + (["write_records-overridden"] if case.get("own_writer") else []) + ["file", f"wc{min(wc, 3)}{'+' if wc >= 3 else ''}"] + (["flush>=64-records"] if biggest >= 64 else [])}


def run_case(case):
    if case.get("kind") == "file":
        return run_file(case)
    if case.get("kind") == "agent":
        return run_agent(case)
    raise InvalidCase(case.get("kind"))


def strategy(tier):
    nd = st.builds(lambda s, e, f: {"start": s, "end": (None if e is None else s + e), "freq": f},
                   st.integers(-2, 4), wone_of(st.none(), st.integers(-1, 8)), st.sampled_from([1, 2, 2, 3]))
    win = wone_of(st.just({"start": 0, "end": None, "freq": 1}), nd, nd,
                    st.builds(lambda s, e, f: {"start": s, "end": (None if e is None else s + e), "freq": f},
                              st.integers(-2, 4), wone_of(st.none(), st.integers(-1, 8)), st.sampled_from([1, 1, 2, 3])))
    val = wone_of(st.none(), st.integers(-3, 3), st.just(0))
    pop_op = wone_of(st.builds(lambda v: {"op": "join", "val": v}, val), st.builds(lambda v: {"op": "join", "val": v}, val),
                       st.builds(lambda k: {"op": "leave", "k": k}, st.integers(0, 6)),
                       st.builds(lambda k, v: {"op": "set", "k": k, "val": v}, st.integers(0, 6), st.integers(-3, 9)), st.just({"op": "use"}))
    sched = st.dictionaries(st.integers(0, 9).map(str), st.lists(pop_op, min_size=1, max_size=3), max_size=5)
    agent = st.fixed_dictionaries({
        "kind": st.just("agent"), "init": st.lists(st.builds(lambda v: {"op": "join", "val": v}, val), max_size=4),
        "between": sched, "during": sched, "composite": st.sampled_from(["absent", "absent", "none", "empty", "count", "shared", "shared", "nullable", "nullable", "tally"]),
        "include_ts": st.booleans(), "window": win, "prio": st.sampled_from(["default", "default", "default", "explicit-high"]),
        "steps": st.integers(1, 12), "positional": st.sampled_from([False, False, True])})
    filec = st.fixed_dictionaries({
        "kind": st.just("file"), "ks": st.lists(st.integers(0, 3), min_size=1, max_size=8), "write_count": st.integers(0, 5),
        "window": win, "steps": st.integers(1, 25), "filemode": st.sampled_from(["a", "a", "a", "at", "a+", "ta"]),
        "own_writer": st.sampled_from([False, False, True]), "positional": st.sampled_from([False, False, True]),
        "outage": st.one_of(st.just([]), st.just([]), st.lists(st.integers(0, 12), max_size=4))})
    from vf.fixtures import near_pow2
    # flushes of dozens of records: block-wise writing only differs from a plain loop at / beyond a block size
    bigfile = st.one_of(
        near_pow2(15, 130).map(lambda n: {"kind": "file", "ks": [1], "write_count": n - 1, "window": {"start": 0, "end": None, "freq": 1},
                                          "steps": 2 * n + 3}),
        near_pow2(15, 66).flatmap(lambda n: st.fixed_dictionaries({"kind": st.just("file"), "ks": st.just([n, 0, 1]), "write_count": st.sampled_from([0, 1, 3]),
                                                                   "window": st.just({"start": 0, "end": None, "freq": 1}), "steps": st.integers(4, 12)})),
        st.builds(lambda k, wc: {"kind": "file", "ks": [k], "write_count": wc, "window": {"start": 0, "end": None, "freq": 1}, "steps": 3 * (wc + 1) + 1},
                  st.sampled_from([2, 4, 8]), st.sampled_from([7, 15, 31])))
    return wone_of(*([agent, agent, filec] * 5 + [bigfile]))


EXHAUSTIVE_DOMAIN = ("file collector: write_count 0..4 x every pattern of records-per-collection in {0,1,2}^4 (cyclic) over 13 timesteps "
                     "(thorough: {0,1,2,3}^4 and a second window start=2/frequency=2)")


def exhaustive(tier):
    import itertools
    ks = (0, 1, 2) if tier == "quick" else (0, 1, 2, 3)
    wins = [{"start": 0, "end": None, "freq": 1}] + ([] if tier == "quick" else [{"start": 2, "end": None, "freq": 2}])
    for wc in range(5):
        for pat in itertools.product(ks, repeat=4):
            for win in wins:
                yield {"kind": "file", "ks": list(pat), "write_count": wc, "window": win, "steps": 13,
                       "filemode": ("a", "at", "a+")[(wc + sum(pat)) % 3]}
