"""C05 - systems changing the system set mid-timestep never cause skips or reruns."""
import itertools

from hypothesis import strategies as st

from ECAgent.Core import Model, System
from vf.engine import Violation, InvalidCase
from vf.fixtures import check, wone_of

PROPERTY = "C05"
CASE_TIMEOUT_S = 15      # a case normally takes milliseconds; a scheduler that loops for ever is reported after 3 x 15 s
BUDGET = {"quick": 8000, "thorough": 24000}
RULE = ("2-6 initial systems with priorities in {0,1,2} (ties), 1-3 scripts (actor, timestep, actions) where an action "
        "(always on, or - in a third of the cases - with sparse start/frequency windows, so that in some timesteps nobody else is due) removes self / an earlier / a later / an equal-priority system or registers a fresh system of higher, equal or "
        "lower priority from inside execute(), or raises an exception that the caller catches before carrying on (the cut-short timestep is then requested again); 3-5 completed timesteps. Oracle = validity predicate over the per-timestep log and "
        "the harness' own event trace (no double run; every system registered for the whole timestep runs once, in "
        "priority/registration order; removed-before-turn never runs; mid-timestep registrations run 0 or 1 times; "
        "unscripted timesteps follow C01 order exactly). Non-trivial: the acting system is not last in the order and "
        "performs a removal or a higher/equal-priority insertion. Distinct = digest of the case."
        " Added in rounds 19-24: the very object removed in THIS timestep may be registered again (whether it then runs once is left open, twice is a violation); windows may have a finite last timestep."
        " Round 25: requests may span two timesteps (model.execute(2)); every timestep is judged on its own.")
EXHAUSTIVE_DOMAIN = ("queues of length 2..5 (quick 2..4) over priorities {0,1,2}^n x every actor position x one action "
                     "(remove each target incl. self, or add at priority 0..3), 3 timesteps, action at t=1")
ASSUMPTIONS = ["mid-timestep registrations are new objects (fresh or re-used ids) or the very object that was removed in an earlier timestep",
               "whether a system registered mid-timestep runs in that timestep is left open (0 or 1 runs accepted)"]


class _Events(list):
    """the event log; every entry also remembers the timestep at which it was written (for requests that span two timesteps)"""
    def __init__(self, world):
        super().__init__()
        self.world = world
        self.ts = []

    def append(self, item):
        super().append(item)
        self.ts.append(self.world.model.systems.timestep)

    def reset(self):
        del self[:]
        del self.ts[:]


class Scripted(System):
    def __init__(self, id, model, priority, world, token, start=0, frequency=1, end=None):
        super().__init__(id, model, priority=priority, start=start, frequency=frequency, **({} if end is None else {"end": end}))
        self.world = world
        self.token = token

    def execute(self):
        self.world.ran(self)


class EqScripted(Scripted):
    """system objects with VALUE equality (two systems are equal when their ids are): the scheduler must go by identity"""

    def __eq__(self, other):
        return isinstance(other, System) and other.id == self.id

    def __hash__(self):
        return hash(self.id)


class FalsyScripted(Scripted):
    """falsy system objects (a __len__ returning 0, like the library's own Agent) must be scheduled like any other"""

    def __len__(self):
        return 0


class Boom(Exception):
    """raised by a scripted system out of execute(): user code catches it and carries on with the same model"""


class World:
    def __init__(self, case):
        self.raised = set()
        self.model = Model()
        self.events = _Events(self)
        self.starts = {}         # timestep -> scheduling order when its first system started
        self.all = []            # token -> system
        self.live = {}           # token -> (prio, seq)
        self.seq = 0
        self.scripts = {}        # (actor token, t) -> actions
        self.nontrivial = False
        self.labels = set()
        self.free_ids = []       # ids of removed systems, reusable by a *new* object
        self.graveyard = {}      # token -> timestep of its LAST removal: the very object may be registered again in a LATER timestep
        self.eq_systems = bool(case.get("eq"))
        self.win = {}            # token -> (start, frequency): most systems are always on, some have a sparse window
        wins = list(case.get("windows") or [])
        for i, p in enumerate(case["systems"]):
            self.register(int(p) % 4, event=False, win=wins[i] if i < len(wins) else None)
        n0 = len(self.all)
        if n0 == 0:
            raise InvalidCase("no systems")
        for s in case["scripts"]:
            self.scripts.setdefault((int(s["actor"]) % n0, int(s["t"]) % 8), []).extend(s["actions"])
        self.max_total = 14 + n0

    def order(self):
        return [t for t, _ in sorted(self.live.items(), key=lambda kv: (-kv[1][0], kv[1][1]))]

    def due(self, tok, t):
        start, freq, end = self.win[tok]
        return start <= t and (end is None or t <= end) and (t - start) % freq == 0

    def register(self, prio, event=True, sid=None, win=None):
        tok = len(self.all)
        start, freq = (max(0, int(win[0])), max(1, int(win[1]))) if win else (0, 1)
        end = int(win[2]) if win and len(win) > 2 and win[2] is not None else None      # a finite last timestep (optional third entry)
        self.win[tok] = (start, freq, end)
        if end is not None:
            self.labels.add("finite-end")
        if (start, freq) != (0, 1):
            self.labels.add("sparse-window")
        s = (FalsyScripted if tok % 3 == 2 else (EqScripted if self.eq_systems else Scripted))(sid or f"sys{tok}", self.model, prio, self, tok,
                                                                                                start=start, frequency=freq, end=end)
        self.all.append(s)
        self.model.systems.add_system(s)
        self.seq += 1
        self.live[tok] = (prio, self.seq)
        if event:
            self.events.append(("added", tok))
        return tok

    def unregister(self, tok):
        self.model.systems.remove_system(self.all[tok].id)
        self.free_ids.append(self.all[tok].id)
        self.graveyard[tok] = self.model.systems.timestep
        del self.live[tok]
        self.events.append(("removed", tok))

    def ran(self, system):
        tok = system.token
        if tok < 0:
            raise Violation("rejected-object-ran", "an object whose registration was rejected (id in use) was executed")
        t = self.model.systems.timestep
        self.starts.setdefault(t, self.order())
        self.events.append(("run", tok))
        if not self.due(tok, t):
            raise Violation("ran-while-not-due", f"timestep {t}: system {tok} ran outside its window (start, frequency) = {self.win[tok]}")
        for act in self.scripts.get((tok, t), ()):
            order = self.order()
            mypos = order.index(tok) if tok in order else None
            if act["a"] == "remove":
                target = int(act["target"]) % len(self.all)
                if target not in self.live:
                    continue
                tpos = order.index(target)
                rel = "self" if target == tok else ("gone-actor" if mypos is None else ("earlier" if tpos < mypos else "later"))
                self.labels.add(f"remove-{rel}")
                if mypos is not None and mypos < len(order) - 1:
                    self.nontrivial = True
                self.unregister(target)
            elif act["a"] == "add_dup":
                victims = [t_ for t_ in order if t_ != tok] or order
                if not victims:
                    continue
                victim = victims[int(act.get("target", 0)) % len(victims)]
                dup = Scripted(self.all[victim].id, self.model, int(act.get("prio", 0)) % 4, self, -1)
                try:
                    self.model.systems.add_system(dup)
                except KeyError:
                    self.labels.add("duplicate-registration-rejected-mid-timestep")
                else:
                    raise Violation("duplicate-accepted", f"registering a second object under the id of system {victim} was accepted")
            elif act["a"] == "add":
                prio = int(act["prio"]) % 4
                myprio = system.priority
                rel = "higher" if prio > myprio else ("equal" if prio == myprio else "lower")
                self.labels.add(f"add-{rel}")
                if rel != "lower" and mypos is not None and mypos < len(order) - 1:
                    self.nontrivial = True
                now = act.get("same") == 2      # ... or in THIS timestep ("go to the back of my priority group": remove + register again)
                back = [tk for tk, when in sorted(self.graveyard.items()) if (when < t or now) and tk not in self.live and self.model.systems[self.all[tk].id] is None]
                if act.get("same") and back:
                    # the very object that was removed in an EARLIER timestep is registered again (it has not run in this one)
                    tk = back[int(act.get("prio", 0)) % len(back)]
                    obj = self.all[tk]
                    if obj.id in self.free_ids:
                        self.free_ids.remove(obj.id)
                    self.model.systems.add_system(obj)
                    self.seq += 1
                    self.live[tk] = (obj.priority, self.seq)
                    self.events.append(("added", tk))
                    self.labels.add("same-object-registered-again" + ("-within-the-timestep" if self.graveyard[tk] == t else ""))
                elif len(self.all) < self.max_total:
                    if act.get("reuse") and self.free_ids:
                        self.labels.add("add-reused-id")
                        self.register(prio, sid=self.free_ids.pop(), win=act.get("win"))
                    else:
                        self.register(prio, win=act.get("win"))
            elif act["a"] == "raise":
                if (tok, t) not in self.raised:           # once: the aborted timestep is requested again afterwards
                    self.raised.add((tok, t))
                    self.labels.add("system-raised-after-changes" if any(k != "run" for k, _ in self.events) else "system-raised")
                    raise Boom(tok)
            else:
                raise InvalidCase(act)


def run_case(case):
    w = World(case)
    steps = max(1, min(int(case.get("steps", 3)), 8))
    decoy = None
    if case.get("decoy"):
        # a second model alive at the same time whose systems carry the SAME ids (other priorities) and come and go between
        # the timesteps of the model under test: schedulers are independent of each other
        decoy = Model()
        dlog = []

        class _D(System):
            def execute(self):
                dlog.append(self.id)
        for i in range(len(w.all)):
            decoy.systems.add_system(_D(f"sys{i}", decoy, priority=i % 3))
    def verify_step(t, start, ev):
            runs = [x for k, x in ev if k == "run"]
            removed = {x for k, x in ev if k == "removed"}
            # (1) nobody twice
            for tok in set(runs):
                if runs.count(tok) > 1:
                    raise Violation("ran-twice", f"timestep {t}: system {tok} ran {runs.count(tok)} times; start order {start}, events {ev}")
            # (2)+(3) stayers run exactly once, in order
            start = [tok for tok in start if w.due(tok, t)]       # the systems due in this timestep, in scheduling order
            stayers = [tok for tok in start if tok not in removed]
            missing = [tok for tok in stayers if tok not in runs]
            if missing:
                raise Violation("skipped", f"timestep {t}: systems {missing} stayed registered but did not run; start order {start}, events {ev}")
            got = [tok for tok in runs if tok in stayers]
            if got != stayers:
                raise Violation("order", f"timestep {t}: stayers ran in order {got}, expected {stayers}; events {ev}")
            # (4) removed before its turn -> never runs afterwards
            gone = set()
            ran = set()
            for k, x in ev:
                if k == "run":
                    if x in gone:
                        raise Violation("ran-after-removal", f"timestep {t}: system {x} ran after it was removed; start order {start}, events {ev}")
                    ran.add(x)
                elif k == "removed":
                    gone.add(x)
                elif k == "added":
                    gone.discard(x)       # registered again within the timestep: whether it runs (once) in this timestep is left open
            # (6) a timestep in which nothing changed follows C01 order exactly
            if not any(k != "run" for k, _ in ev):
                if runs != start:
                    raise Violation("quiet-step-order", f"timestep {t}: ran {runs}, expected {start}")
            pass

    has_raise = any(a_.get("a") == "raise" for s_ in case["scripts"] for a_ in s_["actions"])
    done = 0
    for _ in range(steps + 3):
        if done >= steps:
            break
        t = w.model.systems.timestep
        start = w.order()
        w.events.reset()
        w.starts.clear()
        double_now = bool(case.get("double")) and not has_raise and (t + len(case["systems"])) % 2 == 0 and done + 2 <= steps
        if decoy is not None:
            w.labels.add("second-model-alive")
            victim = f"sys{t % max(1, len(case['systems']))}"
            if decoy.systems[victim] is not None:
                decoy.systems.remove_system(victim)
            else:
                decoy.systems.add_system(_D(victim, decoy, priority=5))
            decoy.execute()
        try:
            if double_now:
                w.model.execute(2)
            else:
                w.model.execute()
        except Boom:
            # the timestep was cut short by user code; the caller caught the error. Nothing is claimed about the rest of THAT
            # timestep, but what did run must obey the rules (no double run, nothing after its removal) and every later
            # timestep is an ordinary one
            ev = list(w.events)
            runs = [x for k, x in ev if k == "run"]
            for tok in set(runs):
                if runs.count(tok) > 1:
                    raise Violation("ran-twice", f"timestep {t} (cut short by an exception): system {tok} ran {runs.count(tok)} times; events {ev}")
            gone = set()
            for k, x in ev:
                if k == "run" and x in gone:
                    raise Violation("ran-after-removal", f"timestep {t} (cut short): system {x} ran after it was removed; events {ev}")
                if k == "removed":
                    gone.add(x)
                if k == "added":
                    gone.discard(x)       # registered again: whether it first runs in this timestep or the next is left open
            continue
        if double_now:
            done += 2
            both = list(zip(list(w.events), list(w.events.ts)))
            ev1 = [e for e, ts_ in both if ts_ == t]
            ev2 = [e for e, ts_ in both if ts_ == t + 1]
            stray = [(e, ts_) for e, ts_ in both if ts_ not in (t, t + 1)]
            if stray:
                raise Violation("timestep", f"a request for two timesteps from {t} produced events at other timesteps: {stray[:4]}")
            verify_step(t, start, ev1)
            if ev2:
                start2 = w.starts.get(t + 1, w.order())
            else:
                start2 = w.order()          # nothing happened in the second timestep: the order is the one the first left behind
            verify_step(t + 1, start2, ev2)
            check(w.model.systems.timestep == t + 2, "timestep", f"timestep is {w.model.systems.timestep} after a completed request for 2 steps from {t}")
            w.labels.add("request-spanning-two-timesteps")
        else:
            done += 1
            verify_step(t, start, list(w.events))
            check(w.model.systems.timestep == t + 1, "timestep", f"timestep is {w.model.systems.timestep} after a completed step from {t}")
    if len(case["systems"]) > 32:
        w.labels.add("queue>32")
    return {"nontrivial": w.nontrivial, "labels": sorted(w.labels)}


def _action():
    rem = st.fixed_dictionaries({"a": st.just("remove"), "target": st.integers(0, 7)})
    win = st.sampled_from([None, None, None, [0, 1], [1, 1], [0, 2], [1, 2], [2, 3], [0, 5], [0, 1, 0], [0, 1, 1], [0, 1, 2], [1, 1, 3], [0, 2, 2]])
    add = st.fixed_dictionaries({"a": st.just("add"), "prio": st.integers(0, 3), "reuse": st.booleans(), "win": win,
                                 "same": st.sampled_from([False, False, True, 2])})
    dup = st.fixed_dictionaries({"a": st.just("add_dup"), "target": st.integers(0, 7), "prio": st.integers(0, 3)})
    boom = st.just({"a": "raise"})
    return wone_of(rem, rem, rem, rem, add, add, dup, dup, boom)


def _large(tier):
    """long queues: block-wise / index-based execution only differs from a plain loop beyond a size threshold"""
    from vf.fixtures import near_pow2
    act = wone_of(st.fixed_dictionaries({"a": st.just("remove"), "target": st.integers(0, 140)}),
                  st.fixed_dictionaries({"a": st.just("add"), "prio": st.integers(0, 3), "reuse": st.booleans()}))
    script = st.fixed_dictionaries({"actor": st.integers(0, 140), "t": st.integers(0, 2), "actions": st.lists(act, min_size=1, max_size=2)})
    return st.fixed_dictionaries({"systems": near_pow2(17, 130).flatmap(lambda n: st.lists(st.integers(0, 2), min_size=n, max_size=n)),
                                  "scripts": st.lists(script, min_size=1, max_size=4), "steps": st.just(3), "eq": st.booleans()})


def strategy(tier):
    script = st.fixed_dictionaries({"actor": st.integers(0, 5), "t": st.integers(0, 3),
                                    "actions": st.lists(_action(), min_size=1, max_size=3)})
    small = st.fixed_dictionaries({"systems": st.lists(st.integers(0, 2), min_size=2, max_size=6),
                                   "scripts": st.lists(script, min_size=1, max_size=3),
                                   "steps": st.integers(3, 5), "eq": st.booleans(), "double": st.sampled_from([False, False, True]), "decoy": st.sampled_from([False, False, False, True]),
                                   "windows": st.one_of(st.just([]), st.just([]), st.lists(st.sampled_from([[0, 1], [0, 1], [0, 2], [1, 2], [1, 3], [2, 1], [0, 5], [0, 1, 0], [0, 1, 1], [0, 1, 2], [0, 1, 3], [1, 2, 3]]),
                                                                                            min_size=2, max_size=6))})
    return wone_of(*([small] * 9 + [_large(tier)]))


def exhaustive(tier):
    maxn = 4 if tier == "quick" else 5
    for n in range(2, maxn + 1):
        for prios in itertools.product((0, 1, 2), repeat=n):
            for actor in range(n):
                acts = [{"a": "remove", "target": x} for x in range(n)] + [{"a": "add", "prio": p} for p in range(4)]
                for a in acts:
                    yield {"systems": list(prios), "scripts": [{"actor": actor, "t": 1, "actions": [a]}], "steps": 3}
