"""C18 - decoding follows the documented lifecycle and builds exactly what is listed."""
import copy
import json
import os
import sys
import tempfile

from hypothesis import strategies as st

from ECAgent.Core import Agent, Model, System
from ECAgent.Decode import Decoder, IDecodable, JsonDecoder
from vf.engine import Violation, InvalidCase
from vf.fixtures import check, sized_lists, wone_of

PROPERTY = "C18"
BUDGET = {"quick": 3000, "thorough": 9000}
RULE = ("1-3 model descriptions, each with 0-4 systems (unique ids, arbitrary priority/start/frequency/end) and 0-4 agent groups "
        "(sizes 0-4, distinct prefixes), any subset of the six hook kinds, 'module' keys present or absent (fixtures are then "
        "resolved through __main__), decoded alternately and repeatedly (2-5 decodes) in one process through a dict-returning "
        "Decoder subclass and through JsonDecoder from real temporary files. Oracle: the event log written by recording "
        "model/system/agent/hook fixtures equals the sequence derived from the description (pre-model, model, per system "
        "pre/create/post, per group pre / create 0..n-1 / post, post-model); every system, agent and system-/agent-level hook "
        "saw the decoded model; the returned model holds exactly the listed systems (attributes, registry, execution order of "
        "the first timestep) and agents (ids in creation order). Non-trivial: >= 2 systems and >= 2 groups (one of size >= 2) "
        "with a mix of present and absent hooks. Distinct = digest of the case."
        " Added in rounds 19-24: descriptions of a finished run (Model.decode returns a model that is already complete)."
        " Round 25: before half of the JSON decodes the caller loads the file through JsonDecoder.open_file and edits what it was handed.")
ASSUMPTIONS = ["system ids are unique within a description and agent-group prefixes are distinct (otherwise the documented "
               "duplicate errors apply, which is C01/C04's domain)"]

EVENTS = []
SEEN = []
CURRENT = {}
ME = "vf.props.c18"
NAMES = ("DModel", "DSystem", "DAgent", "hook", "swap_env_hook", "nested_hook")
NESTED = {}
INNER = {"model": {"name": "DModel", "module": ME, "params": {"tag": "inner"}},
         "systems": [{"name": "DSystem", "module": ME, "params": {"id": "isys", "priority": 3}}],
         "agents": [{"name": "DAgent", "module": ME, "number": 2, "params": {"prefix": "in_"}}]}


def make_fixtures(origin):
    """the model / system / agent classes and hook functions a description names. Two sets exist: the one found in this module
    (origin 'mod') and the one found in __main__ under the SAME names (origin 'main'): every event records through which of
    the two its fixture was resolved, so a 'module' key that is ignored, defaulted wrongly or taken from a neighbouring entry shows"""

    class DModel(Model, IDecodable):
        def __init__(self, tag):
            super().__init__()
            self.tag_name = tag

        @staticmethod
        def decode(params: dict):
            m = DModel(params.get("tag"))
            if params.get("done"):         # the description of a finished run (loaded for analysis): the model is marked complete
                m.complete()
            EVENTS.append(("model", params.get("tag"), origin))
            CURRENT["model"] = m
            return m

    class DSystem(System, IDecodable):
        def execute(self):
            EVENTS.append(("exec", self.id))

        @staticmethod
        def decode(params: dict):
            EVENTS.append(("system", params["id"], params.get("model") is CURRENT.get("model"), origin))
            kw = {k: params[k] for k in ("priority", "frequency", "start", "end") if k in params}
            return DSystem(params["id"], params["model"], **kw)

    class DAgent(Agent, IDecodable):
        @staticmethod
        def decode(params: dict):
            EVENTS.append(("agent", params["prefix"], params.get("agent_index"), params.get("model") is CURRENT.get("model"), origin))
            return DAgent(params["prefix"] + str(params["agent_index"]), params["model"])

    def hook(params: dict):
        EVENTS.append(("hook", params["key"], (params["model"] is CURRENT.get("model")) if "model" in params else None, origin))
        if "model" in params:          # what the hook can SEE: systems registered and agents in the environment so far
            m = params["model"]
            SEEN.append((params["key"], len(m.systems.systems), len(m.environment)))

    def swap_env_hook(params: dict):
        """a pre-agent hook that gives the model a fresh environment: agents decoded afterwards must go into THAT environment"""
        from ECAgent.Core import Environment
        EVENTS.append(("hook", params["key"], (params["model"] is CURRENT.get("model")) if "model" in params else None, origin))
        params["model"].set_environment(Environment(params["model"]))

    def nested_hook(params: dict):
        """a hook that decodes ANOTHER description with the same decoder object (a sub-model, a template...) before behaving
        like the ordinary hook: the decode in progress must carry on with its own model afterwards"""
        saved = (list(EVENTS), list(SEEN), dict(CURRENT))
        try:
            NESTED["results"].append(NESTED["decoder"].decode(NESTED["name"]))
        except Exception as e:      # noqa: reported by run_case
            NESTED["results"].append(e)
        EVENTS[:], SEEN[:] = saved[0], saved[1]
        CURRENT.clear()
        CURRENT.update(saved[2])
        hook(params)

    for c in (DModel, DSystem, DAgent):
        c.__qualname__ = c.__name__
    return {"DModel": DModel, "DSystem": DSystem, "DAgent": DAgent, "hook": hook, "swap_env_hook": swap_env_hook, "nested_hook": nested_hook}


FIX = {o: make_fixtures(o) for o in ("mod", "mod2", "main", "main2")}
globals().update(FIX["mod"])
MAIN_FIXTURES = FIX["main"]


class DictDecoder(Decoder):
    def __init__(self, table):
        self.table = table

    def open_file(self, file_name):
        return self.table[file_name]


def _mod(d, use_module):
    if use_module:
        d["module"] = ME
    return d


class _PerEntry:
    """'module' key per entry: the description's default, flipped for the entries whose bit is set in spec['mix']"""

    def __init__(self, spec):
        self.default, self.mix, self.k = bool(spec.get("module", True)), int(spec.get("mix", 0)), 0

    def __bool__(self):
        use = self.default ^ bool((self.mix >> (self.k % 20)) & 1)
        self.k += 1
        return use


def build_description(spec, di):
    use_mod = _PerEntry(spec)
    desc = {"model": _mod({"name": "DModel", "params": {"tag": f"d{di}"}}, use_mod), "systems": [], "agents": []}
    hooks = spec.get("hooks", {})
    if spec.get("done"):
        desc["model"]["params"]["done"] = True
    if hooks.get("pre_model"):
        desc["pre_model_decode"] = _mod({"func": "hook", "params": {"key": f"d{di}:pre_model"}}, use_mod)
    if hooks.get("post_model"):
        desc["post_model_decode"] = _mod({"func": "hook", "params": {"key": f"d{di}:post_model"}}, use_mod)
    for si, s in enumerate(spec.get("systems", [])[:80]):
        params = {"id": f"sys{si}", "priority": int(s.get("priority", 0))}
        if s.get("junk"):
            params["model"] = "not-a-model"
        for k in ("frequency", "start", "end"):
            if s.get(k) is not None:
                params[k] = int(s[k])
        if "frequency" in params and params["frequency"] < 1:
            params["frequency"] = 1
        sd = _mod({"name": "DSystem", "params": params}, use_mod)
        if s.get("pre"):
            sd["pre_system_init"] = _mod({"func": "hook", "params": {"key": f"d{di}:pre_sys{si}"}}, use_mod)
        if s.get("post"):
            sd["post_system_init"] = _mod({"func": "hook", "params": {"key": f"d{di}:post_sys{si}"}}, use_mod)
        desc["systems"].append(sd)
    for gi, g in enumerate(spec.get("groups", [])[:8]):
        gparams = {"prefix": f"g{gi}_"}
        if g.get("junk"):                      # keys the decoder itself injects: its own values must win
            gparams.update({"agent_index": 7, "model": "not-a-model"})
        gd = _mod({"name": "DAgent", "number": max(0, min(int(g.get("n", 1)), 300)), "params": gparams}, use_mod)
        if g.get("pre"):
            gd["pre_agent_init"] = _mod({"func": "swap_env_hook" if g.get("swap") else "hook", "params": {"key": f"d{di}:pre_grp{gi}"}}, use_mod)
        if g.get("post"):
            gd["post_agent_init"] = _mod({"func": "hook", "params": {"key": f"d{di}:post_grp{gi}"}}, use_mod)
        desc["agents"].append(gd)
    ko = int(spec.get("key_order", 0))
    if ko:
        # the members of a JSON object have no order: write the sections (and the members of every entry) in another order
        import itertools as _it
        top = list(desc)
        perm = list(_it.permutations(range(len(top))))[ko % max(1, len(list(_it.permutations(range(len(top))))))]
        desc = {top[i]: desc[top[i]] for i in perm}
        for sec in ("systems", "agents"):
            desc[sec] = [dict(reversed(list(e.items()))) if (ko >> 3) & 1 else e for e in desc[sec]]
    if spec.get("nest_at") is not None:
        slots = [d_ for d_ in [desc.get("pre_model_decode"), desc.get("post_model_decode")] if d_] + \
                [sd[k] for sd in desc["systems"] for k in ("pre_system_init", "post_system_init") if k in sd] + \
                [gd[k] for gd in desc["agents"] for k in ("pre_agent_init", "post_agent_init") if k in gd and gd[k]["func"] == "hook"]
        if slots:
            slots[int(spec["nest_at"]) % len(slots)]["func"] = "nested_hook"
    return desc


def expected_events(desc, di, gen=0):
    ev = []
    # an entry without a 'module' key is resolved through __main__; the names are re-bound to another set of classes /
    # functions between decodes (a notebook cell that is run again): what counts is what a name denotes WHEN the decode runs
    org = lambda entry: ("mod", "mod2")[gen % 2] if "module" in entry else ("main", "main2")[gen % 2]
    if "pre_model_decode" in desc:
        ev.append(("hook", f"d{di}:pre_model", None, org(desc["pre_model_decode"])))
    ev.append(("model", f"d{di}", org(desc["model"])))
    for si, sd in enumerate(desc["systems"]):
        if "pre_system_init" in sd:
            ev.append(("hook", f"d{di}:pre_sys{si}", True, org(sd["pre_system_init"])))
        ev.append(("system", f"sys{si}", True, org(sd)))
        if "post_system_init" in sd:
            ev.append(("hook", f"d{di}:post_sys{si}", True, org(sd["post_system_init"])))
    for gi, gd in enumerate(desc["agents"]):
        if "pre_agent_init" in gd:
            ev.append(("hook", f"d{di}:pre_grp{gi}", True, org(gd["pre_agent_init"])))
        for i in range(gd["number"]):
            ev.append(("agent", f"g{gi}_", i, True, org(gd)))
        if "post_agent_init" in gd:
            ev.append(("hook", f"d{di}:post_grp{gi}", True, org(gd["post_agent_init"])))
    if "post_model_decode" in desc:
        ev.append(("hook", f"d{di}:post_model", None, org(desc["post_model_decode"])))
    return ev


def run_case(case):
    specs = case["descriptions"][:3]
    if not specs:
        raise InvalidCase("no descriptions")
    main = sys.modules["__main__"]
    saved = {n: getattr(main, n, None) for n in NAMES}
    for n in NAMES:
        setattr(main, n, MAIN_FIXTURES[n])
    labels = set()
    nontrivial = False
    rebind = bool(case.get("rebind"))
    try:
        with tempfile.TemporaryDirectory(prefix="vf_c18_") as tmp:
            pristine = [build_description(s, di) for di, s in enumerate(specs)]
            table = {f"desc{di}": copy.deepcopy(d) for di, d in enumerate(pristine)}     # reused dict objects (get mutated)
            table["inner"] = copy.deepcopy(INNER)
            with open(os.path.join(tmp, "inner.json"), "w") as fh:
                json.dump(INNER, fh)
            for di, d in enumerate(pristine):
                with open(os.path.join(tmp, f"desc{di}.json"), "w") as fh:
                    json.dump(d, fh)
            order = [int(x) % len(specs) for x in case.get("order", [0])][:6] or [0]
            for n, di in enumerate(order):
                via_json = bool((int(case.get("json_mask", 0)) >> n) & 1)
                desc = pristine[di]
                del EVENTS[:]
                del SEEN[:]
                CURRENT.clear()
                where = f"decode #{n} of description {di} via {'JsonDecoder' if via_json else 'dict Decoder'}"
                if rebind:
                    for nm in NAMES:
                        setattr(sys.modules[ME], nm, FIX[("mod", "mod2")[n % 2]][nm])
                        setattr(main, nm, FIX[("main", "main2")[n % 2]][nm])
                    labels.add("names-re-bound-between-decodes")
                decoder = JsonDecoder() if via_json else DictDecoder(table)
                NESTED.clear()
                NESTED.update({"decoder": decoder, "name": os.path.join(tmp, "inner.json") if via_json else "inner", "results": []})
                if via_json and (n + len(order)) % 2:
                    # the caller looks at the file first (the decoder's own open_file) and edits what it was handed: the file is unchanged
                    peek = JsonDecoder().open_file(os.path.join(tmp, f"desc{di}.json"))
                    if isinstance(peek, dict):
                        peek["agents"] = []
                        peek.pop("systems", None)
                        for k_ in [k_ for k_ in peek if k_.endswith("_decode")]:
                            del peek[k_]
                    labels.add("file-inspected-and-copy-edited-first")
                try:
                    if via_json:
                        model = decoder.decode(os.path.join(tmp, f"desc{di}.json"))
                    else:
                        model = decoder.decode(f"desc{di}")
                except Exception as e:
                    raise Violation("decode-raised", f"{where}: {type(e).__name__}: {e}; description {_brief(desc)}")
                labels.add("json" if via_json else "dict")
                for inner in NESTED["results"]:
                    labels.add("hook-decodes-another-description")
                    if isinstance(inner, Exception):
                        raise Violation("nested-decode-raised", f"{where}: decoding another description from inside a hook raised {type(inner).__name__}: {inner}")
                    got_inner = (getattr(inner, "tag_name", None), sorted(str(k) for k in inner.systems.systems), [a.id for a in inner.environment])
                    if inner is model or got_inner != ("inner", ["isys"], ["in_0", "in_1"]):
                        raise Violation("nested-decode-mixed-up", f"{where}: the description decoded from inside a hook yielded (tag, systems, agents) = "
                                                                  f"{got_inner}{' - the very model of the outer decode' if inner is model else ''}; description {_brief(desc)}")
                exp = expected_events(desc, di, n if rebind else 0)
                got = list(EVENTS)
                if got != exp:
                    i = next((j for j, (a, b) in enumerate(zip(got, exp)) if a != b), min(len(got), len(exp)))
                    clause = "lifecycle-order"
                    if sorted(map(str, got)) == sorted(map(str, exp)):
                        clause = "lifecycle-order"
                    elif any(e[0] == "agent" for e in got) != any(e[0] == "agent" for e in exp) or \
                            len([e for e in got if e[0] == "agent"]) != len([e for e in exp if e[0] == "agent"]):
                        clause = "agent-count-or-index"
                    elif any(x is False for e in got for x in e):
                        clause = "model-not-passed"
                    elif [e[:-1] for e in got] == [e[:-1] for e in exp]:
                        clause = "resolved-through-wrong-module"
                    raise Violation(clause, f"{where}: event {i}: got {got[i:i + 3]}, expected {exp[i:i + 3]}; description {_brief(desc)}")
                # what system-/agent-level hooks saw when they ran: everything listed before them already exists
                exp_seen, nsys, nag = [], 0, 0
                for si, sd in enumerate(desc["systems"]):
                    if "pre_system_init" in sd:
                        exp_seen.append((f"d{di}:pre_sys{si}", nsys, 0))
                    nsys += 1
                    if "post_system_init" in sd:
                        exp_seen.append((f"d{di}:post_sys{si}", nsys, 0))
                for gi, gd in enumerate(desc["agents"]):
                    swap = gd.get("pre_agent_init", {}).get("func") == "swap_env_hook"
                    if "pre_agent_init" in gd and not swap:
                        exp_seen.append((f"d{di}:pre_grp{gi}", nsys, nag))
                    if swap:
                        nag = 0
                    nag += gd["number"]
                    if "post_agent_init" in gd:
                        exp_seen.append((f"d{di}:post_grp{gi}", nsys, nag))
                if list(SEEN) != exp_seen:
                    i = next((j for j, (a, b) in enumerate(zip(SEEN, exp_seen)) if a != b), min(len(SEEN), len(exp_seen)))
                    raise Violation("hook-saw-incomplete-model", f"{where}: (hook, systems registered, agents in the environment) seen "
                                                                 f"{list(SEEN)[i:i + 2]}, expected {exp_seen[i:i + 2]}; description {_brief(desc)}")
                if model is not CURRENT.get("model"):
                    raise Violation("returned-model", f"{where}: the returned model is not the decoded model")
                # contents
                for si, sd in enumerate(desc["systems"]):
                    s = model.systems[f"sys{si}"]
                    p = sd["params"]
                    if s is None:
                        raise Violation("system-missing", f"{where}: sys{si} is not registered")
                    want = (p["priority"], p.get("frequency", 1), p.get("start", 0), p.get("end", sys.maxsize))
                    if (s.priority, s.frequency, s.start, s.end) != want or s.model is not model:
                        raise Violation("system-attributes", f"{where}: sys{si} has (priority, frequency, start, end) = "
                                                             f"{(s.priority, s.frequency, s.start, s.end)}, declared {want}")
                if model.systems[f"sys{len(desc['systems'])}"] is not None:
                    raise Violation("system-extra", f"{where}: an unlisted system is registered")
                ids = [a.id for a in model.environment]
                swaps = [gi for gi, gd in enumerate(desc["agents"]) if gd.get("pre_agent_init", {}).get("func") == "swap_env_hook"]
                first_kept = swaps[-1] if swaps else 0      # agents decoded before the last swap live in a discarded environment
                want_ids = [f"g{gi}_{i}" for gi, gd in enumerate(desc["agents"]) if gi >= first_kept for i in range(gd["number"])]
                if swaps:
                    labels.add("environment-swapped-by-hook")
                if ids != want_ids:
                    raise Violation("agents", f"{where}: environment holds {ids}, expected {want_ids}")
                if any(a.model is not model for a in model.environment):
                    raise Violation("model-not-passed", f"{where}: an agent was built with a different model")
                del EVENTS[:]
                model.execute()
                due = [(-sd["params"]["priority"], si) for si, sd in enumerate(desc["systems"])
                       if sd["params"].get("start", 0) <= 0 <= sd["params"].get("end", sys.maxsize)
                       and (0 - sd["params"].get("start", 0)) % sd["params"].get("frequency", 1) == 0]
                want_exec = [("exec", f"sys{si}") for _, si in sorted(due)]
                if desc["model"]["params"].get("done"):
                    want_exec = []          # a completed model does not step
                    labels.add("model-born-complete")
                if list(EVENTS) != want_exec:
                    raise Violation("execution-order", f"{where}: first timestep ran {list(EVENTS)}, expected {want_exec}")
                nh = sum(1 for k in ("pre_model_decode", "post_model_decode") if k in desc) + \
                    sum(1 for sd in desc["systems"] for k in ("pre_system_init", "post_system_init") if k in sd) + \
                    sum(1 for gd in desc["agents"] for k in ("pre_agent_init", "post_agent_init") if k in gd)
                maxh = 2 + 2 * len(desc["systems"]) + 2 * len(desc["agents"])
                if len(desc["systems"]) >= 2 and len(desc["agents"]) >= 2 and any(g["number"] >= 2 for g in desc["agents"]) and 0 < nh < maxh:
                    nontrivial = True
                if "module" not in desc["model"]:
                    labels.add("module-default-main")
                keys = ["module" in e_ for e_ in [desc["model"]] + desc["systems"] + desc["agents"] +
                        [sd[k_] for sd in desc["systems"] + desc["agents"] for k_ in sd if k_.startswith(("pre_", "post_"))]]
                if len(set(keys)) == 2:
                    labels.add("module-keys-mixed-within-description")
                if list(desc).index("agents") < list(desc).index("systems"):
                    labels.add("agents-section-written-before-systems")
                if any(g["number"] == 0 for g in desc["agents"]):
                    labels.add("empty-group")
            if len(order) > len(set(order)):
                labels.add("repeated-decode")
    finally:
        for n in NAMES:
            setattr(sys.modules[ME], n, FIX["mod"][n])
            if saved[n] is None:
                if hasattr(main, n):
                    delattr(main, n)
            else:
                setattr(main, n, saved[n])
    return {"nontrivial": nontrivial, "labels": sorted(labels)}


def _brief(desc):
    return {"systems": [dict(s["params"], **{k: 1 for k in ("pre_system_init", "post_system_init") if k in s}) for s in desc["systems"]],
            "groups": [dict(n=g["number"], **{k: 1 for k in ("pre_agent_init", "post_agent_init") if k in g}) for g in desc["agents"]],
            "model_hooks": [k for k in ("pre_model_decode", "post_model_decode") if k in desc]}


def strategy(tier):
    system = st.fixed_dictionaries({"priority": wone_of(st.integers(-2, 3), st.integers(-10 ** 6, 10 ** 6)),
                                    "frequency": wone_of(st.none(), st.integers(1, 4)), "start": wone_of(st.none(), st.integers(-3, 3)),
                                    "end": wone_of(st.none(), st.integers(-1, 9)), "pre": st.booleans(), "post": st.booleans()})
    group = st.fixed_dictionaries({"n": st.integers(0, 4), "pre": st.booleans(), "post": st.booleans(), "junk": st.sampled_from([False, False, True]),
                                   "swap": st.sampled_from([False, False, False, True])})
    desc = st.fixed_dictionaries({"done": st.sampled_from([0, 0, 0, 0, 0, 1]), "nest_at": st.sampled_from([None, None, None, 0, 1, 2, 3, 5]), "key_order": st.sampled_from([0, 0]) | st.integers(0, 119), "mix": st.sampled_from([0, 0, 0]) | st.integers(0, 2 ** 12 - 1), "systems": st.lists(system, max_size=4), "groups": st.lists(group, max_size=4),
                                  "hooks": st.fixed_dictionaries({"pre_model": st.booleans(), "post_model": st.booleans()}),
                                  "module": st.sampled_from([True, True, False])})
    rich = st.fixed_dictionaries({"done": st.sampled_from([0, 0, 0, 0, 0, 1]), "nest_at": st.sampled_from([None, None, None, 0, 1, 2, 3, 5]), "key_order": st.sampled_from([0, 0]) | st.integers(0, 119), "mix": st.sampled_from([0, 0, 0]) | st.integers(0, 2 ** 12 - 1), "systems": st.lists(system, min_size=2, max_size=4), "groups": st.lists(group, min_size=2, max_size=4),
                                  "hooks": st.fixed_dictionaries({"pre_model": st.booleans(), "post_model": st.booleans()}),
                                  "module": st.sampled_from([True, True, False])})
    from vf.fixtures import near_pow2
    biggroup = st.fixed_dictionaries({"n": near_pow2(33, 130), "pre": st.booleans(), "post": st.just(True), "swap": st.just(False)})
    big = st.fixed_dictionaries({"systems": st.lists(system, max_size=2), "groups": st.builds(lambda a, b, c: a + [b] + c, st.lists(group, max_size=1),
                                                                                       biggroup, st.lists(group, max_size=2)),
                                 "hooks": st.fixed_dictionaries({"pre_model": st.booleans(), "post_model": st.booleans()}),
                                 "module": st.sampled_from([True, False])})
    crowded = st.fixed_dictionaries({"systems": near_pow2(17, 70).flatmap(lambda n: st.lists(system, min_size=n, max_size=n)),
                                     "groups": st.lists(group, max_size=2),
                                     "hooks": st.fixed_dictionaries({"pre_model": st.booleans(), "post_model": st.booleans()}),
                                     "module": st.just(True)})
    return st.fixed_dictionaries({"descriptions": st.lists(wone_of(*([desc, rich] * 7 + [big, crowded])), min_size=1, max_size=3),
                                  "order": st.lists(st.integers(0, 2), min_size=1, max_size=5), "json_mask": st.integers(0, 31),
                                  "rebind": st.sampled_from([False, False, True])})
