"""C03 - component listings mirror exactly the components of agents in the model."""
from hypothesis import strategies as st

from ECAgent.Core import Agent, Component, Environment, Model
from ECAgent.Environments import DiscreteWorld, GridWorld, LineWorld, SpaceWorld, PositionComponent
from vf.engine import Violation, InvalidCase
from vf.fixtures import CompA, CompB, CompC, CompF, check, sized_lists, wone_of

PROPERTY = "C03"
BUDGET = {"quick": 1600, "thorough": 5000}
RULE = ("2-3 models alive at once, each with its own environment kind (plain, SpaceWorld, DiscreteWorld, LineWorld, GridWorld), "
        "a pool of 5 agents per model (incl. agents with no components) and 5 identity-equality component types (one with falsy instances, one deriving from PositionComponent, one declared with metaclass=ABCMeta). Histories "
        "(1-45 ops) of attach/detach in ANY residency state (before joining, while resident - with or without the explicit "
        "register/deregister call -, after leaving), join (with in-range position, occasionally into ANOTHER model's "
        "environment), leave, re-join. After EVERY op, for EVERY model and type the listing (model.systems[T], "
        "get_components(T), get_components(T, True), systems[T, True]) is compared by identity with the components of that "
        "type attached to currently resident agents: none missing, none stale, none twice, None/KeyError exactly when empty, "
        "join-registered components in joining order. Non-trivial: a leave of an agent owning a component while another "
        "resident owns one of the same type, or a re-join after the component set changed outside residency, or two models "
        "listing the same type at once. Distinct = digest of the case. While findings F1-F3 are live, attach/detach on a "
        "RESIDENT agent without the explicit scheduler call is forced to the paired form and counted as excluded."
        " Added in rounds 19-24: Model.complete() as an operation (the environment stays in use); a quarter of the histories end by deep-copying a model and checking the copy's listings and its independence; the environment that a prepared world replaces may hold an agent with the id of a newcomer.")
ASSUMPTIONS = ["an agent is resident in at most one environment at a time", "explicit (de)registration is only generated for "
               "components of resident agents", "the world-managed PositionComponent is not part of the claim"]

import abc


class CompM(Component, metaclass=abc.ABCMeta):
    """a component family declared with a metaclass other than `type` (type(CompM) is ABCMeta)"""


class CompP(PositionComponent):
    """a USER component type that merely derives from the world-managed PositionComponent (e.g. a velocity vector)"""


TYPES = [CompA, CompB, CompF, CompP, CompM]     # CompF: falsy instances; CompP: derives from PositionComponent; CompM: ABCMeta
KINDS = ["plain", "space", "discrete", "line", "grid"]
LIVE = set()


def configure(live):
    LIVE.clear()
    LIVE.update(live)


def make_model(kind, late=None):
    """late (a dict) collects the world instead of installing it: the initial population then joins the world BEFORE it is
    handed to set_environment (a prepared world; the agents in it are in the model's environment from that moment on)"""
    m = Model()
    if kind == "space":
        w = SpaceWorld(m, 8.0, 6.0, 4.0)
    elif kind == "discrete":
        w = DiscreteWorld(m, 4, 3, 2)
    elif kind == "line":
        w = LineWorld(m, 6)
    elif kind == "grid":
        w = GridWorld(m, 5, 4)
    elif kind == "plain":
        w = Environment(m) if late is not None else None
    else:
        raise InvalidCase(kind)
    if late is not None:
        late[id(m)] = w
    elif w is not None:
        m.set_environment(w)
    return m


def in_range_pos(env, frac):
    if not isinstance(env, SpaceWorld):
        return ()
    off = env._index_offset if hasattr(env, "_index_offset") else 0
    out = []
    for ext, f in zip((env.width, env.height, env.depth), frac):
        hi = ext - (1 if isinstance(env, DiscreteWorld) else 0)
        out.append(0 if ext <= 0 else int(f) % (int(hi) + 1))
    return tuple(out)


def run_case(case):
    kinds = [KINDS[int(k) % len(KINDS)] for k in case["models"]][:3]
    if not kinds:
        raise InvalidCase("no models")
    late = {} if case.get("late_install") and case.get("init") else None
    models = [make_model(k, late) for k in kinds]

    def env_of(mi_):
        return late[id(models[mi_])] if late else models[mi_].environment
    nm = len(models)
    PER = max(1, min(int(case.get("per_model", 5)), 160))       # agents per model (large cases cross size thresholds)
    agents = [[Agent(f"m{mi}a{ai}", models[mi]) for ai in range(PER)] for mi in range(nm)]
    where_is = {}        # agent obj id -> model index it is resident in
    joined_seq = {}      # agent obj id -> sequence number of its current join
    via_join = set()     # id(component) registered by a join (order is then prescribed)
    comp_of = {}         # (id(agent), T) -> component
    seq = 0
    verify_on = case.get("verify", True)
    excluded = 0
    nontrivial = False
    labels = set()
    changed_outside = set()   # agents whose component set changed while not resident since last leave
    has_left = set()

    def resident_agents(mi):
        return [a for row in agents for a in row if where_is.get(id(a)) == mi]

    def verify(where):
        nonlocal nontrivial
        listing_models = {t: 0 for t in TYPES}
        for mi, m in enumerate(models):
            res = sorted(resident_agents(mi), key=lambda a: joined_seq[id(a)])
            env_ids = [a.id for a in m.environment]
            if sorted(env_ids) != sorted(a.id for a in res):
                raise Violation("environment-membership", f"{where}: model {mi} environment holds {env_ids}, expected {[a.id for a in res]}")
            for t in TYPES:
                exp = [comp_of[(id(a), t)] for a in res if (id(a), t) in comp_of]
                got = m.systems[t]
                got2 = m.systems.get_components(t)
                got3 = m.systems.getComponents(t)
                if got3 is not got and not (got3 == got):
                    raise Violation("listing-forms-differ", f"{where}: systems[T] and the deprecated getComponents(T) differ")
                if got is not got2 and not (got == got2):
                    raise Violation("listing-forms-differ", f"{where}: systems[T] and get_components(T) differ")
                if not exp:
                    if got is not None:
                        stale = [f"{c.agent.id}:{type(c).__name__}" for c in got] if isinstance(got, list) else got
                        raise Violation("listing-stale" if got else "listing-empty-not-none",
                                        f"{where}: model {mi} lists {stale} for {t.__name__}, expected None (no resident agent has one)")
                    for strict in (lambda: m.systems.get_components(t, throw_error=True), lambda: m.systems[t, True]):
                        try:
                            r = strict()
                        except KeyError:
                            continue
                        except Exception as e:
                            raise Violation("listing-empty-wrong-error", f"{where}: strict listing raised {type(e).__name__}")
                        raise Violation("listing-empty-no-error", f"{where}: strict listing returned {r!r} instead of KeyError")
                    continue
                listing_models[t] += 1
                if not isinstance(got, list):
                    raise Violation("listing-missing", f"{where}: model {mi} lists {got!r} for {t.__name__}, expected "
                                                       f"{[c.agent.id for c in exp]}")
                gid = [id(c) for c in got]
                for c in exp:
                    if id(c) not in gid:
                        raise Violation("listing-missing", f"{where}: model {mi}: {t.__name__} of resident agent {c.agent.id} is not listed "
                                                           f"(listed: {[x.agent.id for x in got]})")
                eid = {id(c) for c in exp}
                for c in got:
                    if id(c) not in eid:
                        raise Violation("listing-stale", f"{where}: model {mi} lists a {t.__name__} of agent {getattr(c.agent, 'id', '?')} "
                                                         f"which is not attached to a resident agent (expected {[x.agent.id for x in exp]})")
                if len(gid) != len(set(gid)):
                    raise Violation("listing-duplicate", f"{where}: model {mi} lists a {t.__name__} twice: {[x.agent.id for x in got]}")
                ordered = [c for c in got if id(c) in via_join]
                want = [c for c in exp if id(c) in via_join]
                if [id(c) for c in ordered] != [id(c) for c in want]:
                    raise Violation("listing-order", f"{where}: model {mi} {t.__name__}: join-registered components listed as "
                                                     f"{[c.agent.id for c in ordered]}, agents joined in order {[c.agent.id for c in want]}")
                if m.systems.get_components(t, throw_error=True) is not got and m.systems.get_components(t, throw_error=True) != got:
                    raise Violation("listing-forms-differ", f"{where}: strict and lenient listing differ")
        if any(v >= 2 for v in listing_models.values()):
            nontrivial = True
            labels.add("two-models-same-type")

    prologue = []
    for idx, spec in enumerate(case.get("init", [])[:nm * PER]):      # initial population: components attached, then joined
        mi0, ai0 = idx // PER, idx % PER
        if mi0 >= nm:
            break
        for ti in range(len(TYPES)):
            if int(spec.get("comps", 0)) >> ti & 1:
                prologue.append({"op": "attach", "m": mi0, "a": ai0, "t": ti, "paired": True})
        if spec.get("joined"):
            prologue.append({"op": "join", "m": mi0, "a": ai0, "pos": spec.get("pos", [0, 0, 0]), "foreign": 0})
    for k, op in enumerate(prologue + list(case["ops"])):
        if late and k == len(prologue):
            for m_ in models:
                first = next(iter(late[id(m_)]), None)
                if first is not None and (k + nm) % 2:
                    # the environment that is being replaced is not empty: it holds an agent (without components) whose id
                    # also occurs in the prepared world - ids are unique per environment, not per model
                    m_.environment.add_agent(Agent(first.id, m_))
                    labels.add("replaced-environment-holds-same-id")
                m_.set_environment(late[id(m_)])
            late = None
            labels.add("populated-world-installed")
            if verify_on:
                verify("after installing the prepared worlds")
        kind = op["op"]
        mi = int(op.get("m", 0)) % nm
        a = agents[mi][int(op.get("a", 0)) % PER]
        flat = [x for row in agents for x in row]
        if "k" in op:      # relative addressing: k-th agent / component in the state the op is meant for
            if kind == "detach":
                pool = [(x, tt) for x in flat for tt in TYPES if (id(x), tt) in comp_of]
                if not pool:
                    continue
                a, tsel = pool[int(op["k"]) % len(pool)]
                op = dict(op, t=TYPES.index(tsel))
            elif kind == "join":
                pool = [x for x in flat if id(x) not in where_is]
                if not pool:
                    continue
                a = pool[int(op["k"]) % len(pool)]
            elif kind == "leave":
                pool = sorted((x for x in flat if id(x) in where_is), key=lambda x: joined_seq[id(x)])
                if not pool:
                    continue
                a = pool[int(op["k"]) % len(pool)]
            mi = next(i for i, row in enumerate(agents) if any(x is a for x in row))
        res_in = where_is.get(id(a))
        where = f"after op {k} {op}"
        if kind == "attach":
            t = TYPES[int(op["t"]) % len(TYPES)]
            if (id(a), t) in comp_of:
                continue
            comp = t(a, a.model)
            if k % 6 == 4:
                a.addComponent(comp)            # the deprecated spelling is still an entry point
                labels.add("deprecated-aliases")
            else:
                a.add_component(comp)
            comp_of[(id(a), t)] = comp
            if res_in is not None:
                paired = bool(op.get("paired", True))
                if not paired and (LIVE & {"F1", "F3"}):
                    paired = True
                    excluded += 1
                if paired:
                    try:
                        models[res_in].systems.register_component(comp)
                    except KeyError:
                        lst = models[res_in].systems[t] or []
                        if not any(c is comp for c in lst):
                            raise Violation("register-raised", f"{where}: explicit register_component raised KeyError but the component is not listed")
                    labels.add("resident-attach-paired")
                else:
                    labels.add("resident-attach-unpaired")
            else:
                labels.add("attach-outside")
                if id(a) in has_left:
                    changed_outside.add(id(a))
        elif kind == "detach":
            t = TYPES[int(op["t"]) % len(TYPES)]
            if (id(a), t) not in comp_of:
                continue
            comp = comp_of.pop((id(a), t))
            if res_in is not None:
                paired = bool(op.get("paired", True))
                if not paired and "F2" in LIVE:
                    paired = True
                    excluded += 1
                if paired:
                    try:
                        models[res_in].systems.deregister_component(comp)
                    except KeyError:
                        lst = models[res_in].systems[t] or []
                        if any(c is comp for c in lst):
                            raise Violation("deregister-raised", f"{where}: explicit deregister_component raised KeyError but the component is still listed")
                    labels.add("resident-detach-paired")
                else:
                    labels.add("resident-detach-unpaired")
            else:
                labels.add("detach-outside")
                if id(a) in has_left:
                    changed_outside.add(id(a))
            if k % 6 == 5:
                a.removeComponent(t)
                labels.add("deprecated-aliases")
            else:
                a.remove_component(t)
            via_join.discard(id(comp))
        elif kind == "join":
            if res_in is not None:
                continue
            target = mi
            if op.get("foreign") and nm > 1:
                target = (mi + 1 + int(op.get("foreign")) % (nm - 1)) % nm
                labels.add("foreign-join")
            env = env_of(target)
            pos = in_range_pos(env, op.get("pos", (0, 0, 0)))
            if op.get("oob") and isinstance(env, SpaceWorld):
                axes = [ax for ax, e in enumerate((env.width, env.height, env.depth)) if e > 0]
                bad = list(pos)
                ax = axes[int(op["oob"]) % len(axes)]
                bad[ax] = -1 if int(op["oob"]) % 2 else (env.width, env.height, env.depth)[ax] + 1
                try:
                    env.add_agent(a, *bad)
                except Exception:
                    labels.add("rejected-off-map-join")
                    if verify_on:
                        verify(where + " (join at an off-map position was rejected)")
                    continue
                raise Violation("off-map-join-accepted", f"{where}: add_agent at {bad} was accepted")
            try:
                if k % 7 == 6 and (not pos or all(v == 0 for v in pos)):
                    env.addAgent(a)                 # the deprecated spelling (no position: the origin) is still an entry point
                    labels.add("deprecated-aliases")
                else:
                    env.add_agent(a, *pos)
            except Exception as e:
                raise Violation("join-raised", f"{where}: add_agent raised {type(e).__name__}: {e}")
            seq += 1
            where_is[id(a)] = target
            joined_seq[id(a)] = seq
            for t in TYPES:
                if (id(a), t) in comp_of:
                    via_join.add(id(comp_of[(id(a), t)]))
            if id(a) in changed_outside:
                nontrivial = True
                labels.add("rejoin-after-change")
                changed_outside.discard(id(a))
        elif kind == "leave":
            if res_in is None:
                continue
            own = [t for t in TYPES if (id(a), t) in comp_of]
            others = [b for b in resident_agents(res_in) if b is not a]
            if any((id(b), t) in comp_of for b in others for t in own):
                nontrivial = True
                labels.add("leave-with-sharers")
            try:
                if k % 4 == 3:
                    models[res_in].environment.removeAgent(a.id)        # the deprecated spelling is still an entry point
                    labels.add("deprecated-aliases")
                else:
                    models[res_in].environment.remove_agent(a.id)
            except Exception as e:
                raise Violation("leave-raised", f"{where}: remove_agent of a resident agent raised {type(e).__name__}: {e}")
            del where_is[id(a)]
            has_left.add(id(a))
            for t in own:
                via_join.discard(id(comp_of[(id(a), t)]))
        elif kind == "stray_deregister":
            # a redundant explicit deregister_component: for a component that is not registered with that model (its agent has
            # left / never joined / lives in another model). Whether the call raises is the scheduler's business (the tree
            # raises KeyError); the listings must be what they were
            mj = (mi + int(op.get("other", 0))) % nm
            pool = [(x, tt) for x in flat for tt in TYPES if (id(x), tt) in comp_of and where_is.get(id(x)) != mj]
            if not pool:
                continue
            x, tt = pool[int(op.get("k", 0)) % len(pool)]
            try:
                models[mj].systems.deregister_component(comp_of[(id(x), tt)])
            except KeyError:
                pass
            except Exception as e:
                raise Violation("stray-deregister-wrong-error", f"{where}: deregistering a component that is not registered raised {type(e).__name__}: {e}")
            labels.add("stray-deregister")
        elif kind == "reinstall":
            # the model's environment is handed to set_environment again (idempotent use of a documented call, e.g. from
            # a set-up routine that runs twice): the agents in it are still in the model's environment
            try:
                models[mi].set_environment(models[mi].environment)
            except Exception as e:
                raise Violation("reinstall-raised", f"{where}: set_environment(current environment) raised {type(e).__name__}: {e}")
            labels.add("environment-installed-again")
        elif kind == "complete":
            # the model is marked complete (Model.complete()): it no longer steps, but its environment and listings stay in use -
            # agents are still taken out and put in while results are collected
            models[mi].complete()
            labels.add("model-completed-then-used")
        else:
            raise InvalidCase(op)
        look = ("every", "every", "sparse", "end")[len(case["ops"]) % 4]      # how often the listings are inspected between operations
        if verify_on and not late and (look == "every" or (look == "sparse" and k % 3 == 2)):
            verify(where)
    if late:
        for m_ in models:
            m_.set_environment(late[id(m_)])
        late = None
    verify("at the end")
    if case.get("fork"):
        # the experiment is branched: copy.deepcopy(model) gives a second, independent model whose listings show the copies of the
        # same components, and what joins the copy is listed there and nowhere else
        import copy
        mi = int(case["fork"]) % nm
        m = models[mi]
        before = {t: (None if m.systems[t] is None else [c.agent.id for c in m.systems[t]]) for t in TYPES}
        try:
            m2 = copy.deepcopy(m)
        except Exception as e:
            raise Violation("deepcopy-raised", f"copy.deepcopy(model {mi}) raised {type(e).__name__}: {e}")
        for t in TYPES:
            got = m2.systems[t]
            got = None if got is None else [c.agent.id for c in got]
            if got != before[t]:
                raise Violation("copy-listing", f"deep copy of model {mi}: {t.__name__} listing shows agents {got}, the original shows {before[t]}")
            if m2.systems[t] is not None and any(all(c is not a_[t] for a_ in m2.environment) for c in m2.systems[t]):
                raise Violation("copy-listing", f"deep copy of model {mi}: the {t.__name__} listing holds components that do not belong to the copy's agents")
        newcomer = Agent("forked", m2)
        comp = CompA(newcomer, m2)
        newcomer.add_component(comp)
        m2.environment.add_agent(newcomer)
        lst = m2.systems[CompA]
        if lst is None or not any(c is comp for c in lst):
            raise Violation("copy-listing", f"deep copy of model {mi}: an agent that joined the copy is not in the copy's CompA listing")
        after = {t: (None if m.systems[t] is None else [c.agent.id for c in m.systems[t]]) for t in TYPES}
        if after != before:
            raise Violation("copy-not-independent", f"after an agent joined the deep copy of model {mi} the original's listings changed from {before} to {after}")
        labels.add("model-deep-copied")
    if PER > 64:
        labels.add("population>64")
    return {"nontrivial": nontrivial, "labels": sorted(labels) + [f"env-{k}" for k in sorted(set(kinds))], "excluded": excluded}


def strategy(tier):
    m, a, t = st.integers(0, 2), wone_of(st.integers(0, 1), st.integers(0, 4)), wone_of(st.just(0), st.integers(0, 4))
    paired = st.sampled_from([True, True, False])
    k = st.integers(0, 14)
    pos = st.tuples(st.integers(0, 9), st.integers(0, 9), st.integers(0, 9)).map(list)
    foreign = st.sampled_from([0, 0, 0, 0, 0, 1, 2])
    attach = st.fixed_dictionaries({"op": st.just("attach"), "m": m, "a": a, "t": t, "paired": paired})
    join_abs = st.fixed_dictionaries({"op": st.just("join"), "m": m, "a": a, "pos": pos, "foreign": foreign,
                                      "oob": st.sampled_from([0, 0, 0, 0, 1, 2, 3, 4])})
    join_rel = st.fixed_dictionaries({"op": st.just("join"), "k": k, "pos": pos, "foreign": foreign})
    ops = wone_of(
        attach, attach, attach, join_abs, join_abs, join_rel,
        st.fixed_dictionaries({"op": st.just("detach"), "m": m, "a": a, "t": t, "paired": paired}),
        st.fixed_dictionaries({"op": st.just("detach"), "k": k, "paired": paired}),
        st.fixed_dictionaries({"op": st.just("leave"), "m": m, "a": a}),
        st.fixed_dictionaries({"op": st.just("leave"), "k": k}),
        st.fixed_dictionaries({"op": st.just("leave"), "k": k}),
        st.fixed_dictionaries({"op": st.just("reinstall"), "m": m}),
        st.fixed_dictionaries({"op": st.just("stray_deregister"), "m": m, "other": st.integers(0, 2), "k": k}),
        st.fixed_dictionaries({"op": st.just("complete"), "m": m}),
    )
    init = st.fixed_dictionaries({"comps": st.sampled_from([0, 0, 1, 1, 1, 2, 3, 4, 5, 7, 8, 9, 12, 15, 16, 17, 24, 31]), "joined": st.booleans(), "pos": pos})
    from vf.fixtures import near_pow2
    big_init = st.fixed_dictionaries({"comps": st.sampled_from([1, 1, 1, 3, 5, 9, 17]), "joined": st.sampled_from([True, True, True, False]),
                                      "pos": pos})
    big_ops = wone_of(st.fixed_dictionaries({"op": st.just("leave"), "k": st.integers(0, 200)}),
                      st.fixed_dictionaries({"op": st.just("leave"), "k": st.integers(0, 200)}),
                      st.fixed_dictionaries({"op": st.just("join"), "k": st.integers(0, 200), "pos": pos, "foreign": st.just(0)}),
                      st.fixed_dictionaries({"op": st.just("detach"), "k": st.integers(0, 400), "paired": st.just(True)}))
    large = near_pow2(33, 130).flatmap(lambda n: st.fixed_dictionaries({
        "models": st.lists(st.integers(0, 4), min_size=2, max_size=2), "per_model": st.just(n),
        "init": st.lists(big_init, min_size=2 * n, max_size=2 * n), "ops": sized_lists(big_ops, 2, 10)}))
    small = _small(m, a, t, paired, k, pos, foreign, attach, join_abs, join_rel, ops, init)
    return wone_of(*([small] * 14 + [large]))


def _small(m, a, t, paired, k, pos, foreign, attach, join_abs, join_rel, ops, init):
    return st.fixed_dictionaries({"models": st.lists(st.integers(0, 4), min_size=2, max_size=3),
                                  "late_install": st.sampled_from([False, False, False, True]), "fork": st.sampled_from([0, 0, 0, 0, 1, 2]),
                                  "init": wone_of(st.just([]), st.lists(init, min_size=15, max_size=15)),
                                  "ops": wone_of(st.lists(ops, min_size=1, max_size=12), sized_lists(ops, 8, 45), sized_lists(ops, 8, 45))})
