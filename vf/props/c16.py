"""C16 - grid search scores every combination correctly and returns the true best."""
import json
import sys
from fractions import Fraction

from hypothesis import strategies as st

from ECAgent.Core import Model, System
from ECAgent import Batching
from ECAgent.Batching import ParameterList, ScoreMode, grid_search
from vf.engine import Violation, InvalidCase, quiesce
from vf.fixtures import check, wone_of

PROPERTY = "C16"
CASE_TIMEOUT_S = 10      # a case normally takes < 0.2 s; see DESIGN.md 2.9 (hang handling)
BUDGET = {"quick": 1000, "thorough": 3000}
RULE = ("1-6 parameter combinations (grid a x b, or a alone), each with its own tuple of per-repetition scores served by a "
        "fixture model on its k-th instantiation (so a reused model or a skipped repetition shows); scores: ints of any "
        "magnitude incl. beyond +-sys.maxsize, negative, tied across combinations, non-monotone, dyadic floats, 1e300; all 8 "
        "ScoreModes; repetitions 1-4 (>= 2 for variance); dict and ParameterList input; completion by the model or by "
        "max_timesteps; ~30% of cases also run with 2..4 worker processes (thorough: up to 16) and must equal the serial "
        "outcome. Oracle = exact Fraction recomputation of every aggregate; best must be (by identity) the FIRST result whose "
        "reported aggregate is the min (MIN modes) / max (MAX modes). Non-trivial: >= 3 combinations with the optimum not "
        "first, or a tie for the optimum, or a score beyond +-sys.maxsize. Distinct = digest of the case."
        " Added in rounds 19-24: integer scores beyond the float range for min / max / sum; reused ParameterList objects; an always-truthy user model class; numpy uint8 scores for the min / max modes (generated and an exhaustive table family).")
ASSUMPTIONS = ["parameter names 'records' and 'score' are reserved by the documented result format and not generated",
               "float aggregates are compared within 4*n*eps*sum|x| (sum) / correctly-rounded-or-4-ulp (mean, variance); "
               "integer aggregates exactly (or the correctly rounded float where statistics returns one)",
               "variance modes are not combined with |score| > 1e150 (the square overflows a float)"]

_inst = {}
MAXSIZE = sys.maxsize


class Finisher(System):
    def __init__(self, model, at):
        super().__init__("fin", model)
        self.at = at

    def execute(self):
        if self.model.systems.timestep >= self.at:
            self.model.complete()


class ScoreModel(Model):
    def __init__(self, a, table, b=0):
        super().__init__()
        t = json.loads(table)
        cid = a * t["nb"] + b
        k = _inst.get(cid, 0)
        _inst[cid] = k + 1
        seq = t["scores"][cid]
        self.score_value = seq[k] if k < len(seq) else ("extra-instantiation", cid, k)
        if t.get("cost") and t["cost"][cid % len(t["cost"])]:
            import time
            time.sleep(t["cost"][cid % len(t["cost"])] / 1000.0)   # schedule perturbation only; the oracle is order-free
        if t["complete_at"] is not None:
            self.systems.add_system(Finisher(self, t["complete_at"]))
        if t.get("dt") is not None:
            self.timestep = t["dt"]     # the model's OWN attribute of that name (a step length, say): not the scheduler's counter


class ScoreModelT(ScoreModel):
    """a user model class that is always truthy (users do this to get rid of the 'a finished model is falsy' trap): whether a model
    still runs is answered by is_running(), which it leaves alone"""
    def __bool__(self):
        return True


def score_of(model):
    return model.score_value


class TinyModel(Model):
    def __init__(self, x):
        super().__init__()
        self.x = x
        self.systems.add_system(Finisher(self, 1))


def tiny_score(model):
    return -model.x


def score_uint8(model):
    """scores as they come out of image / count arrays: numpy unsigned 8-bit integers (arr.max(), arr[i])"""
    import numpy as np
    return np.uint8(model.score_value)


def score_nested(model):
    """a score function that itself runs a (serial) search over another model - e.g. calibrating an inner parameter for every
    outer combination - before reporting the outer model's score: searches must not share state"""
    best, results = grid_search(TinyModel, {"x": [0, 1, 2]}, tiny_score, processes=1, repetitions=2, mode=ScoreMode.MIN, max_timesteps=5)
    if best.get("x") != 2 or [r.get("records") for r in results] != [[0, 0], [-1, -1], [-2, -2]]:
        return ("inner-search-wrong", str(best)[:80])
    return model.score_value


def _val(v, is_float):
    return float(v) if is_float else int(v)


def _close(got, exact, scale, n):
    """got is what the implementation reports; exact a Fraction."""
    try:
        g = Fraction(got)
    except (TypeError, ValueError, OverflowError):
        return False
    if g == exact:
        return True
    try:
        if isinstance(got, float) and float(exact) == got:
            return True
    except OverflowError:
        pass
    eps = Fraction(1, 2 ** 52)
    return abs(g - exact) <= 4 * max(n, 1) * eps * scale


def run_case(case):
    try:
        return _run_case(case)
    finally:
        quiesce()


def _run_case(case):
    is_float = bool(case.get("float"))
    combos = [[_val(v, is_float) for v in c] for c in case["scores"]]
    na, nb = int(case["na"]), int(case["nb"])
    if na < 1 or nb < 1 or na * nb != len(combos):
        raise InvalidCase("grid shape")
    mode = ScoreMode(int(case["mode"]) % 8)
    reps = int(case["reps"])
    if mode in (ScoreMode.MIN_VARIANCE, ScoreMode.MAX_VARIANCE):
        reps = max(reps, 2)
        if any(abs(v) > 1e150 for c in combos for v in c):
            raise InvalidCase("variance with huge scores")
    if reps < 1 or any(len(c) < reps for c in combos):
        raise InvalidCase("not enough scores")
    complete_at = case.get("complete_at")
    max_ts = case.get("max_timesteps")
    if complete_at is None and max_ts is None:
        raise InvalidCase("model never stops")
    cost = [max(0, min(int(c), 5)) for c in case.get("cost", [])] if int(case.get("processes", 1)) > 1 else []
    table = json.dumps({"nb": nb, "scores": combos, "complete_at": complete_at, "cost": cost, **({"dt": case["dt"]} if case.get("dt") is not None else {})})
    score_fn = score_nested if case.get("nested") else score_of
    if case.get("npscore"):
        import numpy as np
        if case.get("float") or int(case["mode"]) > 1 or any(not (0 <= int(v) <= 255) for c in combos for v in c):
            raise InvalidCase("numpy scores: minimum / maximum of small non-negative integers only")
        score_fn = score_uint8
        combos = [[np.uint8(v) for v in c] for c in combos]
    a_vals = list(range(na))
    params = {"a": a_vals if (na > 1 or case.get("a_list")) else 0, "table": table}
    if nb > 1 or case.get("b_list"):
        params["b"] = list(range(nb))
    expected_combos = [{"a": a, "table": table, **({"b": b} if "b" in params else {})} for a in range(na) for b in range(nb)]

    model_cls = ScoreModelT if case.get("truthy") else ScoreModel

    def call(processes):
        _inst.clear()
        p = params
        if case.get("plist"):
            p = ParameterList()
            if case.get("plist") == 2:          # a list object that served an earlier search: other values, built, every name declared again
                for k, v in params.items():
                    p.add_parameter(k, [-7, -8, -9] if k in ("a", "b") else v)
                p.build()
                for k in list(params):
                    p.remove_parameter(k)
            for k, v in params.items():
                p.add_parameter(k, v)
        kw = {}
        if max_ts is not None:
            kw["max_timesteps"] = int(max_ts)
        if case.get("positional") and "max_timesteps" in kw:     # every argument in its documented position
            return grid_search(model_cls, p, score_fn, processes, kw["max_timesteps"], reps, mode)
        return grid_search(model_cls, p, score_fn, processes=processes, repetitions=reps, mode=mode, **kw)

    def verify(best, results, tag):
        if not isinstance(results, list) or len(results) != len(combos):
            raise Violation("result-count", f"{tag}: {len(results) if isinstance(results, list) else results!r} results for {len(combos)} combinations")
        aggs = []
        for i, (res, exp_p, scores) in enumerate(zip(results, expected_combos, combos)):
            got_p = {k: v for k, v in res.items() if k not in ("records", "score")}
            if got_p != exp_p:
                raise Violation("parameters-altered", f"{tag}: result {i} has parameters {_short(got_p)}, expected {_short(exp_p)}")
            want = scores[:reps]
            if list(res.get("records", ())) != want or [type(x) for x in res["records"]] != [type(x) for x in want]:
                raise Violation("records", f"{tag}: combination {i} reports records {res.get('records')}, its repetitions scored {want}")
            fr = [Fraction(int(x)) if case.get("npscore") else Fraction(x) for x in want]
            n = len(fr)
            scale = sum(abs(x) for x in fr)
            if mode == ScoreMode.MIN:
                exact, tol = min(fr), 0
            elif mode == ScoreMode.MAX:
                exact, tol = max(fr), 0
            elif mode in (ScoreMode.MIN_MEAN, ScoreMode.MAX_MEAN):
                exact, tol = sum(fr) / n, scale / n
            elif mode in (ScoreMode.MIN_SUM, ScoreMode.MAX_SUM):
                exact, tol = sum(fr), scale
            else:
                mu = sum(fr) / n
                exact = sum((x - mu) ** 2 for x in fr) / (n - 1)
                tol = exact + scale * scale
            if "score" not in res or isinstance(res["score"], bool) or not isinstance(res["score"], (int, float, Fraction) + ((__import__("numpy").integer,) if case.get("npscore") else ())):
                raise Violation("aggregate", f"{tag}: combination {i} has no numeric score: {res.get('score')!r}")
            if tol == 0 or (not is_float and exact.denominator == 1):
                ok = Fraction(res["score"]) == exact             # min/max, and integer-valued aggregates of integer scores: exact
            elif not is_float:
                ok = isinstance(res["score"], float) and _safe_float(exact) == res["score"]      # the correctly rounded quotient
            else:
                ok = _close(res["score"], exact, tol, n)
            if is_float and isinstance(res["score"], float) and res["score"] in (float("inf"), float("-inf")):
                # a sum of floats beyond the largest float legitimately overflows to +-inf (sign as the exact value)
                ok = abs(exact) > Fraction(MAXFLOAT) and (res["score"] > 0) == (exact > 0) and mode in (ScoreMode.MIN_SUM, ScoreMode.MAX_SUM)
            if not ok:
                raise Violation(f"aggregate-{mode.name}", f"{tag}: combination {i} records {want}: reported score {res['score']!r}, exact value {exact} (~{_safe_float(exact)})")
            aggs.append(res["score"])
        is_min = mode % 2 == 0
        target = min(aggs) if is_min else max(aggs)
        first = aggs.index(target)
        idx = [i for i, r in enumerate(results) if r is best]
        if not idx:
            raise Violation("best-not-a-result", f"{tag}: best {_short(best)} is not one of the returned results")
        if idx[0] != first:
            raise Violation("wrong-best", f"{tag}: mode {mode.name}, aggregates {aggs}: best is result {idx[0]}, the first optimum is result {first}")
        return first, aggs

    best, results = call(1)
    first, aggs = verify(best, results, "serial")
    labels = {mode.name, "float" if is_float else "int", f"reps{reps}"}
    if case.get("npscore"):
        labels.add("numpy-uint8-scores")
    if case.get("nested"):
        labels.add("score-function-runs-a-nested-search")
    if case.get("dt") is not None:
        labels.add("model-has-own-timestep-attribute")
    if len(combos) > 32:
        labels.add("combinations>32")
    procs = int(case.get("processes", 1))
    if procs > 1:
        best2, results2 = call(procs)
        first2, aggs2 = verify(best2, results2, f"processes={procs}")
        if first2 != first or results2 != results:
            raise Violation("parallel-differs", f"processes={procs}: best index {first2} vs {first}; results {[_short(r) for r in results2]} vs {[_short(r) for r in results]}")
        labels.add("parallel")
    target = aggs[first]
    tie = aggs.count(target) > 1
    beyond = any(abs(v) > MAXSIZE for c in combos for v in c[:reps])
    if tie:
        labels.add("tie")
    if beyond:
        labels.add("beyond-maxsize")
    labels.add("opt-first" if first == 0 else ("opt-last" if first == len(combos) - 1 else "opt-middle"))
    return {"nontrivial": (len(combos) >= 3 and first != 0) or tie or beyond, "labels": sorted(labels)}


MAXFLOAT = 1.7976931348623157e308


def _safe_float(fr):
    try:
        return float(fr)
    except OverflowError:
        return "huge"


def _short(d):
    if isinstance(d, dict):
        return {k: (v if k != "table" else "...") for k, v in d.items()}
    return d


def strategy(tier):
    maxproc = 4 if tier == "quick" else 16

    @st.composite
    def case(draw):
        large = draw(st.integers(0, 11)) == 0
        if large:                      # more combinations than a batching threshold would be
            from vf.fixtures import near_pow2
            na, nb = draw(near_pow2(17, 70)), 1
        else:
            na = draw(st.integers(1, 4))
            nb = draw(st.integers(1, 2)) if na <= 3 else 1
        n = na * nb
        is_float = draw(st.integers(0, 3)) == 0
        mode = draw(st.integers(0, 7))
        npscore = False
        reps = draw(st.integers(1, 4))
        if mode >= 6:
            reps = max(reps, 2)
        if is_float:
            base = wone_of(st.integers(-64, 64).map(lambda k: k / 8.0), st.integers(-2 ** 20, 2 ** 20).map(lambda k: k / 8.0))
            if mode < 4:       # min / max / mean stay finite for any finite scores (sum and variance may legitimately overflow)
                base = wone_of(base, base, base, st.sampled_from([1e300, -1e300, 1e18, -3.5e17, 1.7e308, -1.7e308, 1.5e308]))
            elif mode < 6:
                base = wone_of(base, base, base, st.sampled_from([1e300, -1e300, 1e18, -3.5e17]))
                if draw(st.integers(0, 2)) == 0:      # sums that overflow: every aggregate is +inf (or -inf), all tie, the first one wins
                    base = st.sampled_from([1.7e308, 1.5e308, 1.2e308]) if draw(st.booleans()) else st.sampled_from([-1.7e308, -1.5e308, -1.2e308])
                    reps = max(reps, 2)
        else:
            big = st.sampled_from([MAXSIZE, -MAXSIZE, MAXSIZE + 1, -MAXSIZE - 1, 4 * MAXSIZE, 8 * MAXSIZE, 12 * MAXSIZE,
                                   -4 * MAXSIZE, -8 * MAXSIZE, 2 ** 70, -2 ** 70, 2 ** 53 + 1, 2 ** 53 + 3, 10 ** 17 + 3,
                                   10 ** 17 + 1, -(2 ** 60) - 7, 10 ** 17 + 5])
            kind = draw(st.integers(0, 9))
            if kind >= 8 and mode > 1 and draw(st.booleans()):
                mode = mode % 2             # numpy scores are only generated for the minimum / maximum modes
            npscore = kind >= 8 and mode in (0, 1)
            if kind >= 8:
                kind = 2
            if kind == 7 and mode not in (0, 1, 4, 5):
                kind = 6
            if kind == 7:       # exact integers beyond the float range: minimum, maximum and sum of integers never leave the integers
                base = wone_of(st.sampled_from([10 ** 400, -10 ** 400, 2 ** 1024, 2 ** 1024 + 1, -2 ** 1024 - 1, 10 ** 400 + 1, 2 ** 1023]),
                               st.sampled_from([10 ** 400, -10 ** 400, 2 ** 1024, 2 ** 1024 + 1]), st.integers(-5, 5))
            elif kind == 6:       # a cluster of huge scores a few units apart: equal as floats, different as integers
                anchor = draw(st.sampled_from([2 ** 53, 2 ** 60, 10 ** 17, -2 ** 62, 2 ** 64, -10 ** 18]))
                base = st.integers(0, 9).map(lambda k, _a=anchor: _a + k)
            elif kind == 0:
                base = big
            elif kind == 1:
                base = wone_of(big, st.integers(-5, 5))
            else:
                base = wone_of(st.integers(-5, 5), st.integers(-5, 5), st.integers(-10 ** 6, 10 ** 6))
            if npscore:
                base = wone_of(st.integers(0, 7), st.just(0), st.sampled_from([255, 200, 128]))
        scores = [[draw(base) for _ in range(reps)] for _ in range(n)]
        if n >= 2 and draw(st.integers(0, 2)) == 0:       # plant a tie between two combinations
            i, j = draw(st.integers(0, n - 1)), draw(st.integers(0, n - 1))
            scores[j] = list(scores[i])
        procs = draw(st.sampled_from([1, 1, 1, 1, 1, 1, 1, 2, 3, maxproc])) if not large else draw(st.sampled_from([2, 3, 4, maxproc]))
        complete_at = draw(st.sampled_from([0, 0, 1, 2, None]))
        max_ts = draw(st.sampled_from([None, 0, 1, 2, 3])) if complete_at is not None else draw(st.integers(0, 3))
        return {"na": na, "nb": nb, "float": is_float, "mode": mode, "reps": reps, "scores": scores, "processes": procs,
                "npscore": (not is_float) and npscore, "plist": draw(st.sampled_from([False, True, True, 2])), "truthy": draw(st.integers(0, 5)) == 0, "a_list": draw(st.booleans()), "b_list": draw(st.booleans()),
                "complete_at": complete_at, "max_timesteps": max_ts,
                "positional": draw(st.integers(0, 2)) == 0, "nested": draw(st.integers(0, 5)) == 0 and not large, "dt": draw(st.sampled_from([None, None, None, None, None, 0.25, 2, 100])),
                "cost": [draw(st.sampled_from([0, 0, 1, 3])) for _ in range(n)] if procs > 1 else []}
    return case()


EXHAUSTIVE_DOMAIN = ("all 8 modes x every table of 3 combinations x 2 repetitions with scores from {-1, 0, 1} (quick: 2 combinations "
                     "plus the 3-combination tables with equal repetitions), serial; ties, zeros and sign changes at every position")


def exhaustive(tier):
    import itertools
    vals = (-1, 0, 1)
    base = {"nb": 1, "float": False, "reps": 2, "processes": 1, "plist": False, "a_list": True, "b_list": False,
            "complete_at": 0, "max_timesteps": None, "cost": []}
    pairs = list(itertools.product(vals, repeat=2))
    for mode in (0, 1):            # numpy unsigned 8-bit scores: every table of three combinations over {0, 1, 200}
        for combo in itertools.product((0, 1, 200), repeat=3):
            yield dict(base, na=3, mode=mode, reps=1, npscore=True, scores=[[c] for c in combo])
    for mode in range(8):
        for combo in itertools.product(pairs, repeat=2):
            yield dict(base, na=2, mode=mode, scores=[list(c) for c in combo])
        if tier == "quick":
            for combo in itertools.product(vals, repeat=3):
                yield dict(base, na=3, mode=mode, scores=[[c, c] for c in combo])
        else:
            for combo in itertools.product(pairs, repeat=3):
                yield dict(base, na=3, mode=mode, scores=[list(c) for c in combo])
