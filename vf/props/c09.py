"""C09 - cell coordinates and cell ids are in one-to-one correspondence."""
import itertools

import numpy as np

from hypothesis import strategies as st

from ECAgent.Core import Model
from ECAgent.Environments import DiscreteWorld, GridWorld, LineWorld, discrete_grid_pos_to_id, discreteGridPosToID
from vf.engine import Violation, InvalidCase
from vf.fixtures import check, with_done, wone_of

PROPERTY = "C09"
BUDGET = {"quick": 150, "thorough": 450}
RULE = ("One case = one grid shape, in half of the random cases with a second grid world of another shape created afterwards and alive during the lookups (DiscreteWorld(w,h,d) with extents 0 or >= 1 in every position, LineWorld(w), "
        "GridWorld(w,h)); for the shape EVERY in-range coordinate triple is looked up (id formula as documented: "
        "discrete_grid_pos_to_id(x, y, world.width, z, world.height); range, injectivity, position table round-trip, "
        "get_cell row incl. a distinguishing cell component 10000z+100y+x) and every just-outside coordinate on both "
        "sides of every axis must raise IndexError. Non-trivial: the shape has >= 2 cells. Distinct = distinct shapes."
        " Added in rounds 19-24: the model may be marked complete; neighbourhood queries around the origin / far corner / middle may precede the lookups.")
EXHAUSTIVE_DOMAIN = ("all (w,h,d) in {0..3}^3 (thorough {0..5}^3) as DiscreteWorld, LineWorld(1..4|6), GridWorld(1..4|6 squared); "
                     "all in-range triples and all just-outside triples of each")
ASSUMPTIONS = ["a zero extent denotes the single layer 0 (the convention the world constructor uses for its position table)"]


NPINT = (np.int64, np.int32, np.intp)


def mark(pos, cells):
    return 10000 * pos[2] + 100 * pos[1] + pos[0]


def build(case):
    m = Model()
    kind = case["kind"]
    w, h, d = int(case["w"]), int(case.get("h", 0)), int(case.get("d", 0))
    if min(w, h, d) < 0:
        raise InvalidCase("negative extent")
    wrap = bool(case.get("wrap"))           # cell addressing does not depend on the world being toroidal
    if kind == "line":
        if w < 1:
            raise InvalidCase("line width")
        return LineWorld(m, w, wrap_env=wrap), (w, 0, 0)
    if kind == "grid":
        if w < 1 or h < 1:
            raise InvalidCase("grid extents")
        return GridWorld(m, w, h, wrap_env=wrap), (w, h, 0)
    if kind == "discrete":
        return DiscreteWorld(m, w, h, d, wrap_env=wrap), (w, h, d)
    raise InvalidCase(kind)


def run_case(case):
    world, (w, h, d) = build(case)
    if case.get("done") is not None:       # the model was marked complete: its grid keeps answering
        world.model.complete()
    other = None
    if case.get("later"):
        # a second grid world of another shape is created AFTER the world under test and stays alive: worlds are independent
        other, oshape = build(dict(case["later"]))
        last = tuple(max(e, 1) - 1 for e in oshape)
        check(tuple(other.get_cell(*last)["pos"]) == last, "get-cell-wrong-row", f"{case}: companion world: get_cell{last} returned another cell")
    ew, eh, ed = max(w, 1), max(h, 1), max(d, 1)
    ncells = ew * eh * ed
    check(len(world.cells) == ncells, "cell-count", f"{case}: {len(world.cells)} rows, expected {ncells}")
    if (w + h + d) % 2:
        # the marks REPLACE an earlier component of the same name (a layer that is regenerated): lookups must show the new values
        world.add_cell_component("mark", lambda pos, cells: -1)
        try:
            world.add_cell_component("mark", mark)
        except Exception:                   # a world may refuse a second component under a live name
            world.remove_cell_component("mark")
            world.add_cell_component("mark", mark)
    else:
        world.add_cell_component("mark", mark)
    used = int(case.get("used") or 0)
    if used:
        # the grid's other services are used first (neighbourhood queries around the origin / the far corner / the middle cell):
        # asking for neighbours does not change what the grid accepts as a cell address
        centre = {1: (0, 0, 0), 2: (ew - 1, eh - 1, ed - 1), 3: (ew // 2, eh // 2, ed // 2)}[used]
        for r in (1, 0):
            world.get_moore_neighbours(centre, r)
            world.get_neumann_neighbours(centre, r, True)
            world.get_neighbours(centre, r, mode="neumann", ret_type=tuple)
    pos_col = list(world.cells["pos"])
    seen = {}
    kind = case["kind"]
    for z in range(ed):
        for y in range(eh):
            for x in range(ew):
                cid = discrete_grid_pos_to_id(x, y, world.width, z, world.height)
                if (x + y + z) % 5 == 1 and discreteGridPosToID(x, y, world.width, z, world.height) != cid:
                    raise Violation("id-forms-differ", f"{case}: the deprecated discreteGridPosToID disagrees with discrete_grid_pos_to_id at {(x, y, z)}")
                if not (isinstance(cid, int) and 0 <= cid < ncells):
                    raise Violation("id-range", f"{case}: id of {(x, y, z)} is {cid!r}, not in 0..{ncells - 1}")
                if cid in seen:
                    raise Violation("id-collision", f"{case}: {(x, y, z)} and {seen[cid]} both have id {cid}")
                seen[cid] = (x, y, z)
                if tuple(pos_col[cid]) != (x, y, z):
                    raise Violation("table-roundtrip", f"{case}: cells['pos'][{cid}] = {pos_col[cid]}, expected {(x, y, z)}")
                calls = [(x, y, z)]
                if kind == "line" or (h == 0 and d == 0):
                    if y == 0 and z == 0:
                        calls.append((x,))
                if kind == "grid" or d == 0:
                    if z == 0:
                        calls.append((x, y))
                # coordinates read back from the cell table / produced by numpy are numpy integers: integers all the same
                calls.append(tuple(NPINT[(x + y + z) % len(NPINT)](v) for v in (x, y, z)))
                calls.append({"x": x, "y": y, "z": z} if (x + y) % 2 else {"z": z, "x": x, "y": y})     # by keyword, in either order
                for args in calls:
                    try:
                        if isinstance(args, dict):
                            row = world.get_cell(**args)
                        elif (x + 2 * y + z) % 7 == 3:
                            row = world.getCell(*args)          # the deprecated spelling is still an entry point
                        else:
                            row = world.get_cell(*args)
                    except IndexError as e:
                        raise Violation("get-cell-rejects-inrange", f"{case}: get_cell{args} raised IndexError: {e}")
                    if tuple(row["pos"]) != (x, y, z) or row["mark"] != mark((x, y, z), None):
                        raise Violation("get-cell-wrong-row", f"{case}: get_cell{args} returned pos={row['pos']} mark={row['mark']}")
                    if row.name != cid:
                        raise Violation("get-cell-wrong-row", f"{case}: get_cell{args} returned row {row.name}, id is {cid}")
                    if args is calls[0] and (x + y + z) % 3 == 0:
                        # the caller writes into the row it was handed (a scratch edit); the next lookup shows the cell's own values
                        try:
                            row["mark"] = -12345
                        except Exception:
                            pass                    # a read-only row is fine too
                        row2 = world.get_cell(*args)
                        if row2["mark"] != mark((x, y, z), None) or tuple(row2["pos"]) != (x, y, z):
                            raise Violation("lookup-changed-after-caller-edited-the-row", f"{case}: get_cell{args} after the caller edited the row it "
                                                                                           f"had been handed: mark={row2['mark']} pos={row2['pos']}")
    # just outside, both sides of every axis
    outside = set()
    for z in range(ed):
        for y in range(eh):
            outside.update([(-1, y, z), (ew, y, z)])
    for z in range(ed):
        for x in range(ew):
            outside.update([(x, -1, z), (x, eh, z)])
    for y in range(eh):
        for x in range(ew):
            outside.update([(x, y, -1), (x, y, ed)])
    outside.update([(-1, -1, -1), (ew, eh, ed)])
    # less than one cell outside (a coordinate need not be integral to be outside the grid)
    outside.update([(-0.5, 0, 0), (0, -0.5, 0), (0, 0, -0.5), (-0.001, 0, 0), (0, 0, -0.999), (ew + 0.5, 0, 0), (0, eh + 0.25, 0), (0, 0, ed + 0.5)])
    outside.update([(np.int64(-1), 0, 0), (np.int64(ew), np.int64(0), np.int64(0)), (0, np.int32(eh), 0), (0, 0, np.int64(ed))])
    for args in sorted(outside, key=lambda a: tuple(float(v) for v in a)):
        try:
            row = world.get_cell(*args)
        except IndexError:
            continue
        except Exception as e:
            raise Violation("outside-wrong-error", f"{case}: get_cell{args} raised {type(e).__name__}: {e}")
        raise Violation("outside-accepted", f"{case}: get_cell{args} returned row {row.name} instead of raising IndexError")
    if other is not None:
        last = tuple(max(e, 1) - 1 for e in oshape)
        check(tuple(other.get_cell(*last)["pos"]) == last, "get-cell-wrong-row", f"{case}: companion world (after the lookups): get_cell{last} returned another cell")
    labels = (["wrap_env"] if case.get("wrap") else []) + (["model-completed-then-used"] if case.get("done") is not None else []) + (["second-world-alive"] if other is not None else []) + (["neighbourhoods-queried-first"] if used else []) + [f"zero-axes-{''.join('0' if e == 0 else 'n' for e in (w, h, d))}", "cubic" if len({ew, eh, ed}) == 1 else "non-cubic", kind]
    return {"nontrivial": ncells >= 2, "labels": labels}


def strategy(tier):
    ext = lambda n: wone_of(st.just(0), st.integers(1, n))
    disc = st.builds(lambda w, h, d, wr: {"kind": "discrete", "w": w, "h": h, "d": d, "wrap": wr}, ext(12), ext(10), ext(8), st.booleans())
    line = st.builds(lambda w, wr: {"kind": "line", "w": w, "wrap": wr}, st.integers(1, 60), st.booleans())
    grid = st.builds(lambda w, h, wr: {"kind": "grid", "w": w, "h": h, "wrap": wr}, st.integers(1, 14), st.integers(1, 12), st.booleans())
    plain = wone_of(disc, disc, disc, line, grid)
    plain = st.builds(lambda c, u: dict(c, used=u) if u else c, plain, st.sampled_from([0, 0, 1, 2, 3]))
    return with_done(wone_of(plain, st.builds(lambda a, b: dict(a, later=b), plain, plain)))


def exhaustive(tier):
    n = 3 if tier == "quick" else 5
    m = 4 if tier == "quick" else 6
    for wrap in (False, True):
        for w, h, d in itertools.product(range(n + 1), repeat=3):
            yield {"kind": "discrete", "w": w, "h": h, "d": d, "wrap": wrap}
            if wrap:
                yield {"kind": "discrete", "w": w, "h": h, "d": d, "wrap": wrap, "used": 1 + (w + h + d) % 3}
            if not wrap:
                yield {"kind": "discrete", "w": w, "h": h, "d": d, "wrap": wrap, "later": {"kind": "discrete", "w": h + 2, "h": d + 1, "d": w + 1}}
        for w in range(1, m + 1):
            yield {"kind": "line", "w": w, "wrap": wrap}
        for w, h in itertools.product(range(1, m + 1), repeat=2):
            yield {"kind": "grid", "w": w, "h": h, "wrap": wrap}
