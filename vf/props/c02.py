"""C02 - a system runs exactly in its start/end/frequency window; one step = +1."""
import itertools
import sys

from hypothesis import strategies as st

from ECAgent.Core import Model, System
from ECAgent.Collectors import Collector
from vf.engine import Violation, InvalidCase
from vf.fixtures import check, expect_raises, sized_lists, near_pow2, wone_of

PROPERTY = "C02"
BUDGET = {"quick": 4000, "thorough": 12000}
RULE = ("Up to 5 systems (plain System subclasses and Collector subclasses, whose constructor forwards the window) with start in [-6,10], frequency in [1,6] u {17}, end in {default sys.maxsize} u [start-2,start+12], each "
        "registered at a generated timestep (also after its start); scripts (1-25 requests) of execute(), execute(n), "
        "systems.execute_systems() and invalid requests execute(0|-3|1.0|2.5|'2'|None). Oracle: closed form runs(t) <=> registered "
        "at t and start <= t <= end and (t-start) mod frequency == 0, compared with the (timestep read inside execute, id) log; "
        "model.timestep == model.systems.timestep == harness counter after every request; invalid n -> TypeError/ValueError and "
        "nothing changes; metamorphic twin with every execute(n) replaced by n single steps gives the identical log. "
        "Non-trivial: a system with start != 0 and frequency > 1 that is seen both inside its window off phase and running, "
        "or a system registered after its start. Distinct = digest of the case."
        " Added in rounds 19-24: scripts may take a registered system out and register the very object again between two steps; window numbers may be IntEnum members / bools.")
EXHAUSTIVE_DOMAIN = ("every (start, end, frequency) in [-4,6] x ([-4,8] u {sys.maxsize}) x [1,5], timesteps 0..14, registered at t=0 "
                     "and at t=start+1 (quick: start in [-3,4], end in [-3,6] u {maxsize}, frequency [1,4], t 0..11)")
ASSUMPTIONS = ["integer start/end, frequency >= 1 (the property's domain)", "bool n is not generated (whether True is an integer is "
               "not settled by the property)"]

MAXSIZE = sys.maxsize
BAD = {"zero": 0, "neg": -3, "float1": 1.0, "float": 2.5, "str": "2", "none": None}


class Win(System):
    def __init__(self, id, model, log, positional=False, **kw):
        if positional:          # the documented parameter order: id, model, priority, frequency, start, end
            super().__init__(id, model, kw.get("priority", 0), kw.get("frequency", 1), kw.get("start", 0), *([kw["end"]] if "end" in kw else []))
        else:
            super().__init__(id, model, **kw)
        self.log = log
        self.clock = model          # the model whose scheduler runs this system (differs from self.model for a system built for another model)

    def execute(self):
        self.log.append((self.clock.systems.timestep, self.id))


class WinCollector(Collector):
    """collectors are systems too: their constructor forwards the window"""

    def __init__(self, id, model, log, positional=False, **kw):
        if positional:
            super().__init__(id, model, 0, kw.get("frequency", 1), kw.get("start", 0), *([kw["end"]] if "end" in kw else []))
        else:
            super().__init__(id, model, priority=0, **kw)       # same priority as the plain systems: order = registration order (C01)
        self.log = log
        self.clock = model

    def collect(self):
        self.log.append((self.clock.systems.timestep, self.id))


class Spawner(System):
    """always-on system that, at one timestep, registers another system from inside execute() (the window predicate must
    keep holding for everybody: exactly one run per due timestep, also for the system that does the registering)"""

    def __init__(self, model, log, at, make, once=False):
        super().__init__("spawner", model, **({"start": at, "end": at} if once else {}))   # once: due in the spawning timestep only
        self.log, self.at, self.make, self.done = log, at, make, False

    def execute(self):
        self.log.append((self.model.systems.timestep, self.id))
        if self.model.systems.timestep == self.at and not self.done:
            self.done = True
            self.model.systems.add_system(self.make())


def runs(s, t):
    end = MAXSIZE if s.get("end") is None else int(s["end"])
    return int(s["start"]) <= t <= end and (t - int(s["start"])) % int(s["freq"]) == 0


def play(case, expand):
    model = Model()
    log = []
    donor = decoy = None
    if any(s.get("foreign") for s in case["systems"][:80]):
        donor = Model()             # systems flagged 'foreign' are built for THIS model and then registered with the tested one;
        donor.execute(3)            # its clock differs from the tested model's at every moment
    if case.get("decoy"):
        decoy = Model()             # a second model alive at the same time, same system ids, other windows, other clock
        junk = []
        for i, s0 in enumerate(case["systems"][:80]):
            if isinstance(s0.get("idkind", "str"), str) and s0.get("idkind", "str") in ("str", "spaces"):
                sid0 = f"w {i} é" if s0.get("idkind") == "spaces" else f"w{i}"
                decoy.systems.add_system(Win(sid0, decoy, junk, start=int(s0["start"]) + 1, frequency=int(s0["freq"]) + 1))
        decoy.execute(2)
        if case.get("substep"):
            # sub-model stepping: a system of the tested model advances the OTHER model from inside its execute()
            class _Stepper(System):
                def execute(self_):
                    decoy.execute()
            model.systems.add_system(_Stepper("stepper", model, priority=50))
    specs = case["systems"][:80]
    for s in specs:
        if int(s["freq"]) < 1:
            raise InvalidCase("frequency")
    if case.get("spawn"):           # keep the order model simple: everybody else is registered before the spawning timestep
        specs = [dict(s, reg_at=min(max(0, int(s.get("reg_at", 0))), max(0, int(case["spawn"]["at"])))) for s in specs]
    registered = []
    pending = sorted(range(len(specs)), key=lambda i: (max(0, int(specs[i].get("reg_at", 0))), i))
    T = 0
    expected = []
    info = {"offphase": set(), "ran": set(), "late": False}
    spawn = case.get("spawn")
    if spawn:
        sp_at, sp_prio, sp_spec = max(0, int(spawn["at"])), int(spawn.get("prio", 0)), spawn["spec"]
        if int(sp_spec["freq"]) < 1:
            raise InvalidCase("frequency")

        def make():
            kw = {"start": int(sp_spec["start"]), "frequency": int(sp_spec["freq"]), "priority": sp_prio}
            if sp_spec.get("end") is not None:
                kw["end"] = int(sp_spec["end"])
            return Win("wS", model, log, **kw)
        sp_once = bool(spawn.get("once"))
        model.systems.add_system(Spawner(model, log, sp_at, make, once=sp_once))

    reg_time = {}
    names = {}
    objs = {}

    def expect_timestep(t):
        """expected (t, id) entries of one timestep in C01 order: (-priority, registration moment). The spawner is registered
        first; a harness registration at counter value R happens before the step at R, the spawned system is registered
        during the step at sp_at. The spawned system's own registration timestep is left open (0 or 1 runs): see sync()."""
        rows = []
        if spawn:
            rows.append(((0, (-1, 0, 0)), "spawner", {"start": sp_at, "end": sp_at, "freq": 1} if sp_once else None))
            if t > sp_at:
                rows.append(((-sp_prio, (sp_at, 1, 0)), "wS", sp_spec))
        for i in registered:
            rows.append(((0, (reg_time[i], 0, registered.index(i))), i, specs[i]))
        out = []
        for _, sid, spec in sorted(rows, key=lambda r: r[0]):
            if spec is None or runs(spec, t):
                out.append((t, names[sid] if isinstance(sid, int) else sid))
                if isinstance(sid, int):
                    info["ran"].add(sid)
            elif isinstance(sid, int):
                end_ = MAXSIZE if spec.get("end") is None else int(spec["end"])
                if int(spec["start"]) <= t <= end_:
                    info["offphase"].add(sid)
        return out

    def register_due():
        while pending and max(0, int(specs[pending[0]].get("reg_at", 0))) <= T:
            i = pending.pop(0)
            s = specs[i]
            kw = {"start": int(s["start"]), "frequency": int(s["freq"])}
            if s.get("end") is not None:
                kw["end"] = int(s["end"])
            if s.get("numkind") == "enum":          # the window's numbers as members of an IntEnum / as bool where they are 0 or 1
                import enum
                kw = {k_: (bool(v_) if v_ in (0, 1) and k_ != "frequency" else enum.IntEnum("Phase", {"AT": v_}).AT) for k_, v_ in kw.items()}
            sid = {"int": 1000 + i, "tuple": ("w", i), "empty": "" if i == 0 else f"w{i}", "spaces": f"w {i} é"}.get(s.get("idkind"), f"w{i}")
            names[i] = sid
            obj = (WinCollector if s.get("coll") else Win)(sid, donor if s.get("foreign") else model, log, positional=bool(s.get("ctor_pos")), **kw)
            obj.clock = model
            try:
                model.systems.add_system(obj)
            except (TypeError, ValueError):
                if isinstance(sid, str) and not s.get("foreign"):
                    raise
                continue                            # a tree may insist on str ids (the documented type) or on its own systems: then the system simply is not there
            registered.append(i)
            objs[i] = obj
            reg_time[i] = T
            if T > int(s["start"]):
                info["late"] = True

    def one_step(call):
        nonlocal T
        register_due()
        expected.extend(expect_timestep(T))
        call()
        T += 1
        for other in (donor, decoy):
            if other is not None:
                other.execute(2)

    def sync(where):
        if model.timestep != T or model.systems.timestep != T:
            raise Violation("timestep-counter", f"{where}: model.timestep={model.timestep}, systems.timestep={model.systems.timestep}, "
                                                f"expected {T}")
        seen = log
        if spawn:                                   # the spawned system's registration timestep is left open: 0 or 1 runs, if due
            at_spawn = [e for e in log if e == (sp_at, "wS")]
            if len(at_spawn) > (1 if runs(sp_spec, sp_at) else 0):
                raise Violation("activation", f"{where}: the system registered during timestep {sp_at} ran {len(at_spawn)} times in it "
                                              f"(window {sp_spec})")
            seen = [e for e in log if e != (sp_at, "wS")]
        if seen != expected:
            n = next((i for i, (a, b) in enumerate(zip(seen, expected)) if a != b), min(len(seen), len(expected)))
            raise Violation("activation", f"{where}: systems {specs} spawn={spawn}: log diverges at entry {n}: got {seen[n:n + 4]}, "
                                          f"expected {expected[n:n + 4]}")

    for k, op in enumerate(case["script"]):
        where = f"after request {k} {op}"
        kind = op["op"]
        if kind == "step":
            one_step(lambda: model.execute())
        elif kind == "exec_systems":
            one_step(lambda: model.systems.execute_systems())
        elif kind == "stepn":
            n = max(1, min(int(op["n"]), 400))
            if expand:
                for _ in range(n):
                    one_step(lambda: model.execute())
            else:
                # systems due for registration inside the n-step call cannot be registered from outside: register what is
                # due now, and model the rest as registered only afterwards (their reg_at is pushed by the harness)
                register_due()
                for _ in range(n):
                    expected.extend(expect_timestep(T))
                    T += 1
                if n % 2:
                    model.execute(n=n)      # by keyword
                else:
                    model.execute(n)
        elif kind == "requeue":
            # a registered system is taken out and the very same object registered again straight away ("go to the back of my
            # priority group"), between two steps: it is registered once, with its window unchanged
            if not registered:
                continue
            register_due()
            i = registered[int(op.get("k", 0)) % len(registered)]
            model.systems.remove_system(names[i])
            model.systems.add_system(objs[i])
            registered.remove(i)
            registered.append(i)
            reg_time[i] = T
        elif kind == "bad":
            val = BAD[op["n"]]
            before = (model.timestep, list(log))
            if isinstance(val, int):
                expect_raises("invalid-n-valueerror", ValueError, model.execute, val)
            else:
                expect_raises("invalid-n-typeerror", TypeError, model.execute, val)
            if (model.timestep, log) != before:
                raise Violation("invalid-n-changed-state", f"{where}: state changed by a rejected request")
        else:
            raise InvalidCase(op)
        sync(where)
    if spawn:
        log = [e for e in log if e != (sp_at, "wS")]
    return log, T, info, specs


def run_case(case):
    log, T, info, specs = play(case, expand=False)
    # metamorphic twin: n single steps instead of execute(n). Registration times inside an n-step call differ by
    # construction (a system cannot be registered from outside during the call), so the twin is only compared when
    # no registration falls strictly inside a multi-step call.
    t = 0
    comparable = True
    regs = sorted(max(0, int(s.get("reg_at", 0))) for s in specs)
    for op in case["script"]:
        if op["op"] == "stepn":
            n = max(1, min(int(op["n"]), 400))
            if any(t < r < t + n for r in regs):
                comparable = False
            t += n
        elif op["op"] in ("step", "exec_systems"):
            t += 1
    if comparable:
        log2, T2, _, _ = play(case, expand=True)
        if log2 != log or T2 != T:
            raise Violation("n-steps-not-equivalent", f"systems {specs}: execute(n) log {log[:8]}... differs from single-step log {log2[:8]}...")
    nontrivial = info["late"] and bool(info["ran"])
    for i in info["ran"] & info["offphase"]:
        if int(specs[i]["start"]) != 0 and int(specs[i]["freq"]) > 1:
            nontrivial = True
    labels = []
    if info["late"]:
        labels.append("registered-after-start")
    if any(s.get("end") is not None and int(s["end"]) < int(s["start"]) for s in specs):
        labels.append("end<start")
    if any(int(s["start"]) < 0 for s in specs):
        labels.append("negative-start")
    if any(o["op"] == "bad" for o in case["script"]):
        labels.append("invalid-request")
    if case.get("spawn"):
        labels.append("mid-timestep-registration")
    if any(s.get("foreign") for s in specs):
        labels.append("system-built-for-another-model")
    if case.get("decoy"):
        labels.append("second-model-alive" + ("-stepped-from-inside-a-system" if case.get("substep") else ""))
    if any(o["op"] == "stepn" and int(o["n"]) > 64 for o in case["script"]):
        labels.append("execute(n>64)")
    if len(specs) > 16:
        labels.append("systems>16")
    if any(o["op"] == "stepn" for o in case["script"]):
        labels.append("multi-step" + ("" if comparable else "-uncompared"))
    return {"nontrivial": nontrivial, "labels": labels}


def strategy(tier):
    @st.composite
    def system(draw):
        start = draw(st.integers(-6, 10))
        freq = draw(st.sampled_from([1, 1, 2, 2, 3, 4, 5, 6, 17]))
        end = draw(wone_of(st.none(), st.none(), st.integers(start - 2, start + 12)))
        reg = draw(wone_of(st.just(0), st.just(0), st.integers(0, 12)))
        return {"start": start, "freq": freq, "end": end, "reg_at": reg, "coll": draw(st.sampled_from([False, False, True])),
                "idkind": draw(st.sampled_from(["str", "str", "str", "str", "int", "tuple", "empty", "spaces"])),
                "foreign": draw(st.sampled_from([False] * 9 + [True])), "ctor_pos": draw(st.booleans()),
                "numkind": draw(st.sampled_from(["int", "int", "int", "enum"]))}
    op = wone_of(st.just({"op": "step"}), st.just({"op": "step"}), st.just({"op": "exec_systems"}),
                   st.builds(lambda n: {"op": "stepn", "n": n}, st.integers(1, 5)),
                   st.builds(lambda n: {"op": "stepn", "n": n}, st.integers(2, 5)),
                   st.builds(lambda n: {"op": "bad", "n": n}, st.sampled_from(sorted(BAD))),
                   st.builds(lambda k: {"op": "requeue", "k": k}, st.integers(0, 5)))
    bign = st.builds(lambda n: {"op": "stepn", "n": n}, near_pow2(15, 260))
    long_script = st.builds(lambda a, b, c: a + [b] + c, sized_lists(op, 0, 4), bign, sized_lists(op, 0, 4))
    many = st.lists(system(), min_size=17, max_size=70)
    spawn = st.one_of(st.none(), st.none(), st.fixed_dictionaries({"at": st.integers(0, 8), "prio": st.sampled_from([-1, 0, 1, 1]),
                                                                   "spec": system(), "once": st.booleans()}))
    # sparse schedules: nobody but the spawned system is due at most timesteps (an 'idle timestep' shortcut must still see it)
    sparse_sys = st.fixed_dictionaries({"start": st.integers(0, 3), "freq": st.sampled_from([5, 6, 17]), "end": st.one_of(st.none(), st.integers(0, 4)),
                                        "reg_at": st.just(0), "coll": st.booleans(), "idkind": st.just("str"), "foreign": st.just(False)})
    sparse = st.fixed_dictionaries({"systems": st.lists(sparse_sys, min_size=0, max_size=2), "script": sized_lists(op, 8, 20),
                                    "spawn": st.fixed_dictionaries({"at": st.integers(0, 4), "prio": st.sampled_from([-1, 0, 1]), "spec": system(),
                                                                    "once": st.just(True)}), "decoy": st.just(False)})
    small = st.fixed_dictionaries({"systems": st.lists(system(), min_size=1, max_size=5), "script": sized_lists(op, 1, 25),
                                   "spawn": spawn, "decoy": st.sampled_from([False] * 4 + [True, True]), "substep": st.booleans()})
    long_call = st.fixed_dictionaries({"systems": st.lists(system(), min_size=1, max_size=4), "script": long_script, "spawn": st.none()})
    crowded = st.fixed_dictionaries({"systems": many, "script": sized_lists(op, 3, 12), "spawn": spawn})
    return wone_of(*([small] * 11 + [sparse, sparse, long_call, long_call, crowded]))


def exhaustive(tier):
    if tier == "quick":
        starts, ends, freqs, T = range(-3, 5), list(range(-3, 7)) + [None], range(1, 5), 12
    else:
        starts, ends, freqs, T = range(-4, 7), list(range(-4, 9)) + [None], range(1, 6), 15
    for s, e, f in itertools.product(starts, ends, freqs):
        for reg in (0, max(0, s + 1)):
            yield {"systems": [{"start": s, "freq": f, "end": e, "reg_at": reg, "coll": False}], "script": [{"op": "step"}] * T}
            if reg == 0:
                yield {"systems": [{"start": s, "freq": f, "end": e, "reg_at": 0, "coll": True}], "script": [{"op": "step"}] * T}
