"""C19 - tag libraries keep a stable name<->id bijection and cannot be corrupted."""
import importlib.util
import json
import os
import re
import subprocess
import sys

from vf.fixtures import wone_of
from vf.engine import Violation, InvalidCase

PROPERTY = "C19"
BUDGET = {"quick": 3000, "thorough": 9000}
RULE = ("Histories (1-25 ops) of add_tag(name) / get_tag_name(id) / unknown-name lookups over 1-3 libraries alive at once; "
        "library 0 is a local TagLibrary, a freshly loaded copy of the Tags module (module-level API) or - ~3% of cases - "
        "the real global library in a FRESH INTERPRETER (one per history). Names: ordinary identifiers, duplicates, 'NONE', "
        "every attribute/method name of TagLibrary and of its instances, dunder names, module globals of ECAgent.Tags, "
        "arbitrary text. Oracle = list-of-accepted-names model: ids dense and stable, name<->id mutual inverses, itemize, "
        "len, TagNotFoundError outside the range, a rejected add (library error only, never TypeError/AttributeError) "
        "changes nothing, all other libraries unchanged - checked after EVERY op on EVERY library. Hostile names may be "
        "accepted or rejected; duplicates/'NONE' must be rejected, ordinary fresh identifiers must be accepted. "
        "Non-trivial: >= 1 hostile name, >= 3 accepted tags and a rejected add followed by a successful one. Distinct = "
        "digest of the case."
        " Added in rounds 19-24: libraries that are instances of a user subclass with a method, a property and a constant of its own (members keep working or the tag is refused); introspection in between (dir, repr, vars); a third of the lookups by id use numpy integers.")
ASSUMPTIONS = ["tag names are str", "an 'ordinary' name is [A-Z][A-Z0-9_]* other than NONE: it must be accepted",
               "for local libraries an unknown *name* may raise AttributeError (Python default) or TagNotFoundError; "
               "the module-level lookup must raise TagNotFoundError as documented"]

ORDINARY = re.compile(r"[A-Z][A-Z0-9_]{0,11}\Z")


def _tags_source():
    return os.path.join(os.environ.get("VERIF_REPO", "/repo"), "ECAgent", "Tags.py")


_counter = [0]


def fresh_module():
    _counter[0] += 1
    spec = importlib.util.spec_from_file_location(f"_vf_tags_copy_{_counter[0]}", _tags_source())
    mod = importlib.util.module_from_spec(spec)
    spec.loader.exec_module(mod)
    return mod


class LocalLib:
    kind = "local"

    def __init__(self, tags):
        self.t = tags
        self.lib = tags.TagLibrary()

    def add(self, name):
        self.lib.add_tag(name)

    def name_of(self, i):
        return self.lib.get_tag_name(i)

    def id_of(self, name):
        return getattr(self.lib, name)

    def items(self):
        return self.lib.itemize()

    def length(self):
        return len(self.lib)

    def errors(self):
        return self.t.DuplicateTagError, self.t.TagNotFoundError


class SubLib(LocalLib):
    """a user subclass of TagLibrary with members of its own (a method, a read-only property, a class constant): its members are
    attributes of the library like the inherited ones - a tag of that name is either refused or everything keeps working"""
    kind = "subclass"

    def __init__(self, tags):
        self.t = tags

        class Zoo(tags.TagLibrary):
            LIMIT = 99

            def names(self):
                return [n for n, _ in self.itemize()]

            @property
            def size(self):
                return len(self)
        self.lib = Zoo()

    def members_work(self, model):
        lib = self.lib
        if callable(getattr(type(lib), "names", None)) is False:
            return "class member 'names' was replaced"
        for nm, want in (("names", None), ("size", len(model)), ("LIMIT", 99)):
            if nm in model:
                continue          # accepted as a tag: then the NAME denotes the tag (checked by verify), the member is knowingly shadowed
            try:
                got = lib.names() if nm == "names" else getattr(lib, nm)
            except Exception as e:
                return f"member {nm!r} of the subclass raised {type(e).__name__}: {e}"
            if nm == "names":
                want = list(model)
            if got != want:
                return f"member {nm!r} of the subclass gives {got!r}, expected {want!r}"
        return None


class ModuleLib:
    kind = "module"

    def __init__(self, mod):
        self.t = mod

    def add(self, name):
        self.t.add_tag(name)

    def name_of(self, i):
        return self.t.get_tag_name(i)

    def id_of(self, name):
        return getattr(self.t, name)

    def items(self):
        return self.t.itemize()

    def length(self):
        return len(self.t.itemize())

    def errors(self):
        return self.t.DuplicateTagError, self.t.TagNotFoundError


def verify(lib, model, where):
    """Full observable state of one library against its model (list of accepted names)."""
    dup_err, nf_err = lib.errors()
    try:
        n = lib.length()
        items = lib.items()
    except Exception as e:
        raise Violation("operation-broken", f"{where}: len/itemize raised {type(e).__name__}: {e}")
    if n != len(model):
        raise Violation("length", f"{where}: len is {n}, expected {len(model)} for tags {model}")
    if list(map(tuple, items)) != [(name, i) for i, name in enumerate(model)]:
        raise Violation("itemize", f"{where}: itemize() = {items}, expected {[(nm, i) for i, nm in enumerate(model)]}")
    if isinstance(items, list):
        # the caller edits the list it was handed; the next listing shows the library's tags all the same
        items.reverse()
        items.append(("junk", -1))
        again = lib.items()
        if again is items or list(map(tuple, again)) != [(name, i) for i, name in enumerate(model)]:
            raise Violation("itemize-after-caller-edited-the-result", f"{where}: itemize() = {again} after the caller edited an earlier result")
    for i, name in enumerate(model):
        try:
            got = lib.id_of(name)
        except Exception as e:
            raise Violation("lookup-by-name", f"{where}: looking up accepted tag {name!r} raised {type(e).__name__}: {e}")
        if not (type(got) is int and got == i):
            raise Violation("lookup-by-name", f"{where}: tag {name!r} has id {i} but lookup by name gives {got!r}")
        try:
            back = lib.name_of(i)
        except Exception as e:
            raise Violation("lookup-by-id", f"{where}: get_tag_name({i}) raised {type(e).__name__}: {e}")
        if back != name:
            raise Violation("lookup-by-id", f"{where}: get_tag_name({i}) = {back!r}, expected {name!r}")
    for i in (-1, len(model), len(model) + 1):
        try:
            got = lib.name_of(i)
        except nf_err:
            continue
        except Exception as e:
            raise Violation("unknown-id-error", f"{where}: get_tag_name({i}) raised {type(e).__name__}, expected TagNotFoundError")
        raise Violation("unknown-id-error", f"{where}: get_tag_name({i}) returned {got!r} with {len(model)} tags")


def interpret(case, global_mod=None):
    import ECAgent.Tags as Tags
    nlibs = max(1, min(int(case.get("libs", 1)), 3))
    gkind = case.get("global", "none")
    libs = []
    for i in range(nlibs):
        if i == 0 and gkind == "interpreter":
            if global_mod is None:
                raise InvalidCase("interpreter case outside worker")
            libs.append(ModuleLib(global_mod))
        elif i == 0 and gkind == "fresh-module":
            libs.append(ModuleLib(fresh_module()))
        elif (i + len(case["ops"])) % 3 == 1:
            libs.append(SubLib(Tags))
        else:
            libs.append(LocalLib(Tags))
    models = [["NONE"] for _ in libs]
    hostile = accepted = 0
    rejected_then_ok = False
    pending_reject = False
    labels = set()
    sparse = case.get("verify") == "sparse"    # long histories: full verification only when the size is near a power of two / a multiple of 16
    lazy = case.get("verify") == "end"         # do not touch the libraries' observers before / between the operations,
    if not lazy:                               # so that lazily created internal state cannot hide behind an early call
        for lib, model in zip(libs, models):
            verify(lib, model, "fresh library")
    for k, op in enumerate(case["ops"]):
        li = int(op.get("lib", 0)) % nlibs
        lib, model = libs[li], models[li]
        dup_err, nf_err = lib.errors()
        where = f"after op {k} {op} on lib {li} ({lib.kind})"
        if op["op"] == "add":
            name = op["name"]
            if not isinstance(name, str):
                raise InvalidCase("name")
            ordinary = bool(ORDINARY.match(name)) and name != "NONE" and not (lib.kind == "subclass" and name in ("names", "size", "LIMIT"))
            must_reject = name in model
            if not ordinary and not must_reject:
                hostile += 1
                labels.add("hostile")
            try:
                lib.add(name)
                ok = True
            except (dup_err, ValueError) as e:
                ok = False
            except Exception as e:
                raise Violation("add-wrong-error", f"{where}: add_tag({name!r}) raised {type(e).__name__}: {e}")
            if ok and must_reject:
                raise Violation("duplicate-accepted", f"{where}: add_tag({name!r}) succeeded although the tag exists ({model})")
            if not ok and ordinary and not must_reject:
                raise Violation("ordinary-rejected", f"{where}: add_tag({name!r}) was rejected; tags {model}")
            if ok:
                model.append(name)
                accepted += 1
                if pending_reject:
                    rejected_then_ok = True
                labels.add("hostile-accepted" if not ordinary else "ordinary-accepted")
            else:
                pending_reject = True
                labels.add("duplicate-rejected" if must_reject else "hostile-rejected")
        elif op["op"] == "lookup":
            i = int(op["id"])
            try:
                import numpy as _np
                got = lib.name_of(i if k % 3 else (_np.int64(i) if i >= 0 else _np.int32(i)))     # ids read back from arrays are numpy integers
                if not (0 <= i < len(model)) or got != model[i]:
                    raise Violation("lookup-by-id", f"{where}: get_tag_name({i}) = {got!r}, tags {model}")
            except nf_err:
                if 0 <= i < len(model):
                    raise Violation("lookup-by-id", f"{where}: get_tag_name({i}) raised TagNotFoundError, tags {model}")
            labels.add("lookup")
        elif op["op"] == "use":
            # introspection in between (dir(), repr(), vars()): looking at a library does not change it
            target = lib.lib if hasattr(lib, "lib") else lib.t
            for fn_ in (dir, repr, lambda o: sorted(map(str, vars(o)))):
                try:
                    res_ = fn_(target)
                    if isinstance(res_, list):
                        res_.reverse()
                except Exception as e:
                    raise Violation("introspection-raised", f"{where}: {type(e).__name__}: {e}")
            labels.add("introspected")
        elif op["op"] == "unknown":
            name = "ZZ_UNKNOWN_" + str(int(op.get("n", 0)) % 5)
            if name not in model:
                allowed = (nf_err,) if lib.kind == "module" else (nf_err, AttributeError)
                try:
                    got = lib.id_of(name)
                except allowed:
                    pass
                except Exception as e:
                    raise Violation("unknown-name-error", f"{where}: lookup of unknown name raised {type(e).__name__}: {e}")
                else:
                    raise Violation("unknown-name-error", f"{where}: lookup of unknown name {name!r} returned {got!r}")
        else:
            raise InvalidCase(op)
        due = (not lazy) if not sparse else (len(model) % 16 in (0, 1, 15) or len(model) < 4)
        if due or k == len(case["ops"]) - 1:
            for j, (l2, m2) in enumerate(zip(libs, models)):
                verify(l2, m2, where + (f" [observing lib {j}]" if j != li else ""))
                if l2.kind == "subclass":
                    labels.add("user-subclass-library")
                    bad = l2.members_work(m2)
                    if bad:
                        raise Violation("subclass-member-broken", f"{where}: library of a user subclass, tags {m2}: {bad}")
    if gkind == "none":
        # the real global library must not have noticed anything
        verify(ModuleLib(Tags), _global_model(Tags), "real global library after a local-only history")
    return {"nontrivial": hostile >= 1 and accepted >= 3 and rejected_then_ok,
            "labels": sorted(labels) + [f"global-{gkind}", f"libs-{nlibs}"] + (["verify-at-end-only"] if lazy else [])
            + (["tags>=64"] if max(len(m) for m in models) >= 64 else [])}


_gm = {}


def _global_model(Tags):
    """Snapshot of the in-process global library, taken the first time it is looked at (it is never written by a case)."""
    if "m" not in _gm:
        _gm["m"] = [n for n, _ in Tags.itemize()]
    return _gm["m"]


def run_case(case):
    if case.get("global") == "interpreter":
        env = dict(os.environ)
        r = subprocess.run([sys.executable, "-m", "vf.workers.c19_global"], input=json.dumps(case), capture_output=True,
                           text=True, env=env, timeout=120)
        try:
            out = json.loads(r.stdout.strip().splitlines()[-1])
        except Exception:
            raise Violation("worker-crash", f"fresh interpreter died: rc={r.returncode} {r.stdout[-300:]} {r.stderr[-600:]}")
        if "violation" in out:
            raise Violation(out["violation"][0], out["violation"][1])
        if "invalid" in out:
            raise InvalidCase(out["invalid"])
        return out["ok"]
    return interpret(case)


def hostile_names():
    import ECAgent.Tags as Tags
    used = Tags.TagLibrary()                   # an instance on which every operation has been used once: attributes that the
    try:                                       # library creates lazily are part of "its own attribute names" too
        used.add_tag("VF_PROBE")
        used.get_tag_name(0)
        used.itemize()
        len(used)
    except Exception:
        pass
    names = set(dir(Tags.TagLibrary)) | set(vars(Tags.TagLibrary())) | set(vars(Tags)) | (set(vars(used)) - {"VF_PROBE"})
    names |= {"__class__", "__dict__", "__len__", "__init__", "__getattribute__", "__setattr__", "__slots__", "__weakref__",
              "__module__", "__doc__", "__hash__", "__eq__", "__getattr__", "__name__", "__file__", "__builtins__",
              "add_tag", "get_tag_name", "itemize", "_tag_counter", "_tag_names", "NONE", "TagLibrary", "_module_library",
              "DuplicateTagError", "TagNotFoundError", "names", "size", "LIMIT", "", " ", "a b", "1", "None", "self", "é", "tag-1", "\n", "x.y"}
    return sorted(n for n in names if isinstance(n, str))


def strategy(tier):
    from hypothesis import strategies as st
    from vf.fixtures import sized_lists
    hostile = hostile_names()
    methods = ["add_tag", "get_tag_name", "itemize", "__len__", "__class__", "__dict__", "_tag_names", "_tag_counter",
               "TagLibrary", "_module_library", "__getattr__", "DuplicateTagError", "names", "size", "LIMIT", "names", "size"]
    ordinary = st.sampled_from(["A", "B", "SHEEP", "WOLF", "PREY", "T1", "T2", "X_1", "GRASS"])
    # names that LOOK special (dunder / underscore style) but are nobody's attribute: perfectly good tag names
    lookalike = st.sampled_from(["__x__", "__tag__", "__wolf__", "__prey__", "_hidden", "__mangled", "__X", "_", "__"])
    name = wone_of(ordinary, ordinary, st.sampled_from(hostile), st.sampled_from(methods), st.just("NONE"), lookalike,
                     st.text(max_size=6), st.from_regex(ORDINARY, fullmatch=True))
    add = st.fixed_dictionaries({"op": st.just("add"), "lib": st.integers(0, 2), "name": name})
    look = st.fixed_dictionaries({"op": st.just("lookup"), "lib": st.integers(0, 2), "id": st.integers(-2, 12)})
    unk = st.fixed_dictionaries({"op": st.just("unknown"), "lib": st.integers(0, 2), "n": st.integers(0, 4)})
    gk = st.integers(0, 39).map(lambda v: "interpreter" if v <= 1 else ("fresh-module" if v <= 12 else "none"))
    from vf.fixtures import near_pow2
    # long libraries: block-wise / cached paths only differ from the plain ones at or beyond a size threshold
    long_hist = near_pow2(15, 130).flatmap(lambda n: st.fixed_dictionaries({
        "libs": st.just(2), "global": st.sampled_from(["none", "none", "fresh-module"]), "verify": st.sampled_from(["end", "sparse"]),
        "ops": st.builds(lambda tail: [{"op": "add", "lib": 0, "name": f"T{i}"} for i in range(n - 1)] + tail,
                         sized_lists(wone_of(add, add, look, unk), 0, 6))}))
    small = _small(gk, add, look, wone_of(unk, st.fixed_dictionaries({"op": st.just("use"), "lib": st.integers(0, 2)})))
    return wone_of(*([small] * 14 + [long_hist]))


def _small(gk, add, look, unk):
    from hypothesis import strategies as st
    from vf.fixtures import sized_lists
    return st.fixed_dictionaries({"libs": st.integers(1, 3), "global": gk, "verify": st.sampled_from(["every", "every", "end"]),
                                  "ops": wone_of(st.lists(wone_of(add, add, add, add, look, unk), min_size=1, max_size=25), sized_lists(wone_of(add, add, add, add, look, unk), 6, 25))})


EXHAUSTIVE_DOMAIN = ("every name harvested from the live TagLibrary class, an exercised instance and the globals of ECAgent.Tags, offered in chunks of ten to a local library and to the module-level API of a fresh module copy; every sequence of 1..3 add_tag calls (thorough: 1..4) on one local library over the name set {A, B, NONE, add_tag, "
                     "itemize, get_tag_name, __class__, __dict__, _tag_names, _tag_counter, '', 'a b'}, verified after every op and "
                     "once more with verification only at the end")


def exhaustive(tier):
    import itertools
    # every name harvested from the live library / module (its own attributes, lazily created ones, module globals) is offered
    # once to a local library and once to the module-level API of a freshly loaded module copy, an ordinary tag before and after
    hostile = hostile_names()
    for kind in ("none", "fresh-module"):
        for k in range(0, len(hostile), 10):
            chunk = hostile[k:k + 10]
            ops = [{"op": "add", "lib": 0, "name": "FIRST"}] + [{"op": "add", "lib": 0, "name": nm} for nm in chunk] + \
                  [{"op": "add", "lib": 0, "name": "LAST"}, {"op": "lookup", "lib": 0, "id": 1}, {"op": "unknown", "lib": 0, "n": 0}]
            yield {"libs": 1, "global": kind, "verify": "every", "ops": ops}
    names = ["A", "B", "NONE", "add_tag", "itemize", "get_tag_name", "__class__", "__dict__", "_tag_names", "_tag_counter", "", "a b"]
    maxlen = 3 if tier == "quick" else 4
    for n in range(1, maxlen + 1):
        for seq in itertools.product(names, repeat=n):
            ops = [{"op": "add", "lib": 0, "name": nm} for nm in seq]
            yield {"libs": 1, "global": "none", "verify": "every", "ops": ops}
            if n >= 2:
                yield {"libs": 1, "global": "none", "verify": "end", "ops": ops}
