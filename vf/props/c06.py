"""C06 - completion is immediate and final: nothing runs after complete()."""
import logging

from hypothesis import strategies as st

from ECAgent.Core import Agent, Model, ModelCompleteError, System, SystemManager
from vf.engine import Violation, InvalidCase
from vf.fixtures import CompA, CompB, check, expect_raises, sized_lists, wone_of

PROPERTY = "C06"
BUDGET = {"quick": 8000, "thorough": 24000}
RULE = ("2-6 recording systems with priorities 0..3 (ties), one of which calls model.complete() at a generated timestep T (every "
        "position of the completer in the priority order), or completion from outside between steps; T reached by single steps "
        "or inside an execute(n) call; afterwards 1-12 requests from {execute(), execute(n), systems.execute_systems(), "
        "execute_systems(throw_error=True), add_system, remove_system, complete() again}. Oracle: in the completing timestep "
        "exactly the systems ordered before the completer (and the completer) ran; nothing is ever logged afterwards; "
        "is_running()/bool(model) are False from the moment complete() returns (also observed inside the completer) forever; "
        "timestep, agents and component listings never change after the completing call returned; throw_error=True raises "
        "ModelCompleteError every time, the other requests return silently. Non-trivial: the completer is not last in the order "
        "(>= 1 system was due after it) and >= 2 later advance requests of different kinds. Distinct = digest of the case."
        " Added in rounds 19-24: a third of the systems (the completer among them) are falsy objects; the error flag is also passed in its documented position.")
ASSUMPTIONS = ["one case in ten registers the systems with a second SystemManager(model) and drives that one: 'no system runs again' is read as covering every scheduler of the completed model",
               "all systems use the always-on window, so every system after the completer was due in the completing timestep"]


class Rec(System):
    def __init__(self, id, model, priority, log, complete_at=None, flags=None):
        super().__init__(id, model, priority=priority)
        self.log = log
        self.complete_at = complete_at
        self.flags = flags
        self.clock = None               # the scheduler that runs this system, when it is not model.systems

    def execute(self):
        now = (self.clock or self.model.systems).timestep
        self.log.append((now, self.id))
        if self.complete_at is not None and now == self.complete_at:
            self.model.complete()
            self.flags.append((self.model.is_running(), bool(self.model)))


class FalsyRec(Rec):
    """a system that is falsy (an empty work queue, like the library's own Agent without components): scheduled like any other"""
    def __len__(self):
        return 0


def run_case(case):
    prios = [int(p) % 4 for p in case["systems"]][:140]
    if len(prios) < 1:
        raise InvalidCase("systems")
    lg = case.get("logger", "default")
    if lg == "custom":                     # a caller-supplied logger that inherits the root level (WARNING)
        model = Model(logger=logging.getLogger("vf.c06.app"))
    elif lg == "custom-debug":
        custom = logging.getLogger("vf.c06.debug")
        custom.setLevel(logging.DEBUG)
        custom.propagate = False
        if not custom.handlers:
            custom.addHandler(logging.NullHandler())
        model = Model(logger=custom)
    else:
        model = Model()
        if lg == "quiet":
            model.logger.setLevel(logging.ERROR)
    try:
        if case.get("manager") == "second" and not case.get("outside"):
            return _run_second_manager(case, model, prios)
        return _run(case, model, prios)
    finally:
        logging.getLogger("MODEL").setLevel(logging.INFO)


def _run_second_manager(case, model, prios):
    """the systems are registered with a SECOND SystemManager built for the same model and driven through its
    execute_systems(): they are systems of that model all the same, and nothing may run once the model is complete"""
    log, flags = [], []
    T = max(0, min(int(case.get("t", 0)), 12))
    ci = int(case.get("completer", 0)) % len(prios)
    mgr = SystemManager(model)
    systems = []
    for i, p in enumerate(prios):
        s = (FalsyRec if (i + len(prios)) % 3 == 0 else Rec)(f"s{i}", model, p, log, complete_at=(T if i == ci else None), flags=flags)
        s.clock = mgr
        mgr.add_system(s)
        systems.append(s)
    order = [s.id for s in sorted(systems, key=lambda s: -s.priority)]
    for _ in range(T + 1):
        mgr.execute_systems()
    if model.is_running() or bool(model) or flags != [(False, False)]:
        raise Violation("still-running", f"second manager: after complete(): is_running()={model.is_running()} bool={bool(model)} inside={flags}")
    expected = [(t, sid) for t in range(T) for sid in order] + [(T, sid) for sid in order[:order.index(f"s{ci}") + 1]]
    if log != expected:
        extra = [e for e in log if e not in expected]
        raise Violation("ran-after-completion" if extra else "log-mismatch",
                        f"second manager: order {order}, completer s{ci} at t={T}: log tail {log[-6:]}, expected tail {expected[-6:]}")
    nlog, ts = len(log), (mgr.timestep, model.timestep)
    kinds = set()
    for k, op in enumerate(case.get("after", [])[:14]):
        kind = op["op"]
        if kind == "exec_throw":
            expect_raises("no-modelcompleteerror", ModelCompleteError, mgr.execute_systems, throw_error=True)
        elif kind == "step":
            model.execute()
        else:
            mgr.execute_systems()
        kinds.add(kind)
        if len(log) != nlog:
            raise Violation("ran-after-completion", f"second manager: after completion, request {k} {op}: systems ran: {log[nlog:]}")
        if (mgr.timestep, model.timestep) != ts or model.is_running():
            raise Violation("state-changed-after-completion", f"second manager: after request {k} {op}: timesteps {(mgr.timestep, model.timestep)}, were {ts}")
    pos = order.index(f"s{ci}")
    return {"nontrivial": pos < len(order) - 1 and len(kinds) >= 2, "labels": ["second-manager"] + sorted(kinds)}


def _run(case, model, prios):
    decoy = None
    if case.get("decoy"):
        # a second model with systems of the SAME ids alive at the same time; it is completed before the model under test
        # starts (decoy == "done") or keeps running throughout (decoy == "running"): models are independent of each other
        decoy = Model()
        dlog = []
        for i in range(min(len(prios), 6)):
            decoy.systems.add_system(Rec(f"s{i}", decoy, 0, dlog))
        decoy.execute()
        if case["decoy"] == "done":
            decoy.complete()
    try:
        return _run_main(case, model, prios)
    finally:
        if decoy is not None:
            n0 = len(dlog)
            decoy.execute()
            if case["decoy"] == "done" and (len(dlog) != n0 or decoy.is_running()):
                raise Violation("other-model-disturbed", "a second model that was completed earlier ran again / reports running")
            if case["decoy"] == "running" and (len(dlog) != n0 + min(len(prios), 6) or not decoy.is_running()):
                raise Violation("other-model-disturbed", f"a second model that was never completed ran {len(dlog) - n0} systems in a step "
                                                         f"(expected {min(len(prios), 6)}) / is_running()={decoy.is_running()}")


def _run_main(case, model, prios):
    log, flags = [], []
    T = max(0, min(int(case.get("t", 0)), 12))
    outside = bool(case.get("outside"))
    ci = int(case.get("completer", 0)) % len(prios)
    systems = []
    for i, p in enumerate(prios):
        s = (FalsyRec if (i + len(prios)) % 3 == 0 else Rec)(f"s{i}", model, p, log, complete_at=(T if (i == ci and not outside) else None), flags=flags)
        model.systems.add_system(s)
        systems.append(s)
    for k in range(3):
        a = Agent(f"a{k}", model)
        a.add_component(CompA(a, model))
        if k:
            a.add_component(CompB(a, model))
        model.environment.add_agent(a)
    order = [s.id for s in sorted(systems, key=lambda s: -s.priority)]    # stable: registration order among equals

    def state():
        return (model.timestep, model.systems.timestep, [a.id for a in model.environment],
                [id(c) for c in model.systems[CompA] or []], [id(c) for c in model.systems[CompB] or []])

    # advance to the completing timestep
    if not (model.is_running() and bool(model)):
        raise Violation("fresh-model-not-running", "a fresh model reports itself as not running")
    mode = case.get("reach", "single")
    if outside:
        for _ in range(T):
            model.execute()
        model.complete()
        completing_ts = None
    else:
        if mode == "multi":
            model.execute(T + 1 + int(case.get("extra", 0)) % 4)
        else:
            for _ in range(T + 1):
                model.execute()
        completing_ts = T
    if model.is_running() or bool(model):
        raise Violation("still-running", f"after complete() returned: is_running()={model.is_running()} bool={bool(model)}")
    if not outside and flags != [(False, False)]:
        raise Violation("still-running", f"inside the completing system right after complete(): (is_running, bool) = {flags}")
    # log so far
    expected = [(t, sid) for t in range(T) for sid in order]
    if not outside:
        expected += [(T, sid) for sid in order[:order.index(f"s{ci}") + 1]]
    if log != expected:
        extra = [e for e in log if e not in expected]
        raise Violation("ran-after-completion" if extra else "log-mismatch",
                        f"order {order}, completer s{ci} at t={T} ({'outside' if outside else 'inside'}): log tail {log[-6:]}, expected tail {expected[-6:]}")
    frozen = state()
    exp_ts = T if outside else T + 1
    if frozen[0] != exp_ts or frozen[1] != exp_ts:
        raise Violation("timestep-after-completion", f"timestep after the completing call is {frozen[:2]}, expected {exp_ts}")
    nlog = len(log)
    kinds = set()
    registered = {s.id for s in systems}
    extra_n = 0
    for k, op in enumerate(case.get("after", [])[:14]):
        kind = op["op"]
        where = f"after completion, request {k} {op}"
        if kind == "step":
            r = model.execute()
            kinds.add("step")
        elif kind == "stepn":
            r = model.execute(max(1, min(int(op.get("n", 2)), 5)))
            kinds.add("stepn")
        elif kind == "exec":
            r = model.systems.execute_systems()
            kinds.add("exec")
        elif kind == "exec_throw":
            if k % 2:
                expect_raises("no-modelcompleteerror", ModelCompleteError, model.systems.execute_systems, True)       # the flag in its documented position
            else:
                expect_raises("no-modelcompleteerror", ModelCompleteError, model.systems.execute_systems, throw_error=True)
            kinds.add("exec_throw")
        elif kind == "complete":
            model.complete()
        elif kind == "add":
            extra_n += 1
            s = Rec(f"x{extra_n}", model, int(op.get("prio", 0)) % 5, log)
            model.systems.add_system(s)
            registered.add(s.id)
        elif kind == "remove":
            ids = sorted(registered)
            if ids:
                sid = ids[int(op.get("i", 0)) % len(ids)]
                model.systems.remove_system(sid)
                registered.discard(sid)
        else:
            raise InvalidCase(op)
        if len(log) != nlog:
            raise Violation("ran-after-completion", f"{where}: systems ran: {log[nlog:]}")
        if model.is_running() or bool(model):
            raise Violation("running-again", f"{where}: is_running()={model.is_running()} bool={bool(model)}")
        if state() != frozen:
            raise Violation("state-changed-after-completion", f"{where}: (timestep, systems.timestep, agents, listings) changed from {frozen[:3]} to {state()[:3]}")
        for sid in list(registered)[:3]:
            if model.systems[sid] is None:
                raise Violation("registry", f"{where}: system {sid} vanished from the registry")
    pos = order.index(f"s{ci}")
    nontrivial = (not outside and pos < len(order) - 1 and len(kinds) >= 2)
    if len(prios) > 32:
        kinds.add("systems>32")
    if case.get("decoy"):
        kinds.add(f"second-model-{case['decoy']}")
    labels = ["outside" if outside else ("completer-first" if pos == 0 else ("completer-last" if pos == len(order) - 1 else "completer-middle")),
              f"reach-{mode}", f"logger-{case.get('logger', 'default')}"] + sorted(kinds)
    return {"nontrivial": nontrivial, "labels": labels}


def strategy(tier):
    after = wone_of(st.just({"op": "step"}), st.builds(lambda n: {"op": "stepn", "n": n}, st.integers(1, 5)),
                      st.just({"op": "exec"}), st.just({"op": "exec_throw"}), st.just({"op": "complete"}),
                      st.builds(lambda p: {"op": "add", "prio": p}, st.integers(0, 4)),
                      st.builds(lambda i: {"op": "remove", "i": i}, st.integers(0, 7)))
    from vf.fixtures import near_pow2
    nsys = wone_of(*([st.integers(2, 6)] * 9 + [near_pow2(17, 130)]))
    return st.fixed_dictionaries({
        "systems": nsys.flatmap(lambda n: st.lists(st.integers(0, 3), min_size=n, max_size=n)),
        "completer": st.integers(0, 5), "t": wone_of(st.integers(0, 3), st.integers(0, 12)), "outside": st.sampled_from([False, False, False, True]),
        "reach": st.sampled_from(["single", "multi"]), "extra": st.integers(0, 3),
        "logger": st.sampled_from(["default", "default", "custom", "quiet", "custom-debug"]),
        "manager": st.sampled_from(["model"] * 9 + ["second"]), "decoy": st.sampled_from([None, None, None, "done", "running"]),
        "after": sized_lists(after, 1, 12)})


EXHAUSTIVE_DOMAIN = ("1..4 systems over priorities {0,1}^n x every completer position x completion timestep 0..2 x {single steps, "
                     "inside execute(n)} plus completion from outside, each followed by the fixed request sequence "
                     "[step, exec_throw, stepn 3, exec, add, step, remove, exec_throw, complete, step]; default and quiet logger")


def exhaustive(tier):
    import itertools
    after = [{"op": "step"}, {"op": "exec_throw"}, {"op": "stepn", "n": 3}, {"op": "exec"}, {"op": "add", "prio": 3}, {"op": "step"},
             {"op": "remove", "i": 0}, {"op": "exec_throw"}, {"op": "complete"}, {"op": "step"}]
    for n in range(1, 5):
        for prios in itertools.product((0, 1), repeat=n):
            for t in range(3):
                for lg in ("default", "quiet"):
                    yield {"systems": list(prios), "completer": 0, "t": t, "outside": True, "reach": "single", "extra": 0, "logger": lg, "after": after}
                    for ci in range(n):
                        for reach in ("single", "multi"):
                            yield {"systems": list(prios), "completer": ci, "t": t, "outside": False, "reach": reach, "extra": 2,
                                   "logger": lg, "after": after}
