"""C01 - systems run in descending priority, registration order among equals."""
import itertools
import sys

from hypothesis import strategies as st

from ECAgent.Core import Model, SystemNotFoundError
from vf.engine import Violation, InvalidCase
from vf.fixtures import RecSystem, RecCollector, FalsySystem, near_pow2, check, expect_raises, sized_lists, wone_of

PROPERTY = "C01"
BUDGET = {"quick": 6000, "thorough": 18000}
RULE = ("Histories (1-40 ops) of add(id, priority)/remove(id)/step(n) (one case in six: interleaved over TWO models alive at once that use the same ids) over a pool of 7 system ids with tie-heavy "
        "integer priorities (Python ints of any size and numpy integer scalars incl. unsigned ones) (incl. collectors with their default priority and system objects that are falsy), interpreted against the real scheduler and "
        "a sorted-list model (key = -priority, registration sequence); plus the exhaustive box. Non-trivial: at some "
        "executed timestep >= 3 systems with >= 2 priority levels and >= 1 tie are registered, or an id is removed and "
        "re-registered. Distinct = digest of the operation list."
        " Added in rounds 19-24: a quarter of the plain histories use identifiers that are str objects of a subclass."
        " Round 25: windows may have a finite last timestep.")
EXHAUSTIVE_DOMAIN = ("every registration sequence of 1..5 systems over priorities {-1,0,2} (quick: 1..4), each also with "
                     "every single remove-and-re-add (index x new priority), one timestep after every op")
ASSUMPTIONS = ["priorities are Python ints fixed at registration", "most systems use the default always-on window; one in three cases contains systems with a later start or a frequency of 2 (they then run only when due, in the same relative order)",
               "observation through System.execute() call order and model.systems[id] only"]

POOL = 7
BIG = sys.maxsize + 1
PRIOS = [-1, -3, -2, 0, 1, 2, 3, 10 ** 6, -10 ** 6, BIG, -BIG]
# distinct integers that are equal as floats (beyond 2**53): the order is by VALUE, not by a rounded value
CLUSTER = [2 ** 60, 2 ** 60 + 1, 2 ** 60 + 2, sys.maxsize, sys.maxsize - 1, sys.maxsize - 2, -2 ** 60, -2 ** 60 - 1, 2 ** 53, 2 ** 53 + 1, 10 ** 400, -10 ** 400]


def _op():
    prio = wone_of(st.sampled_from([-1, 0, 1]), st.sampled_from([-1, 0, 1]), st.sampled_from(PRIOS), st.sampled_from(PRIOS),
                   st.integers(-4, 4), st.integers(-4, 4), st.sampled_from(CLUSTER))
    add = st.fixed_dictionaries({"op": st.just("add"), "id": st.integers(0, POOL - 1), "prio": prio,
                                 "kind": st.sampled_from(["sys", "sys", "sys", "coll", "colldef", "falsy"]),
                                 "np": st.sampled_from([None, None, None, None, "u8", "i8", "i64", "u64", "u16"]),
                                 "same": st.sampled_from([False, False, True]),
                                 "win": st.sampled_from([None] * 6 + [[1, 1], [2, 1], [3, 2], [0, 2], [5, 1], [0, 1, 0], [0, 1, 1], [1, 1, 2], [0, 2, 2]]),
                                 "alias": st.sampled_from([False] * 7 + [True])})
    rem = st.fixed_dictionaries({"op": st.just("remove"), "id": st.integers(0, POOL - 1), "via": st.sampled_from(["remove_system", "clean_up"]),
                                 "alias": st.sampled_from([False] * 7 + [True])})
    step = st.fixed_dictionaries({"op": st.just("step"), "n": st.sampled_from([1, 1, 1, 2, 3]), "alias": st.sampled_from([False] * 7 + [True])})
    return wone_of(add, add, add, rem, step)


def _perm_case(draw):
    n = draw(st.integers(2, 7))
    prios = [draw(st.sampled_from([-1, 0, 0, 1, 2])) for _ in range(n)]
    order = draw(st.permutations(list(range(n))))
    ops = [{"op": "add", "id": i, "prio": prios[i], "kind": "sys"} for i in order]
    ops.append({"op": "step", "n": 1})
    return {"ops": ops}


def _bulk_case(draw):
    """a well-populated queue first (distinct ids, tie-heavy priorities), then a random history"""
    n = draw(st.integers(3, POOL))
    prio = wone_of(st.integers(-3, 3), st.sampled_from(PRIOS))
    ops = [{"op": "add", "id": i, "prio": draw(prio), "kind": draw(st.sampled_from(["sys", "sys", "coll", "colldef", "falsy"]))}
           for i in draw(st.permutations(list(range(POOL))))[:n]]
    ops.append({"op": "step", "n": 1})
    ops += draw(sized_lists(_op(), 0, 25))
    return {"ops": ops}


def _large_case(draw):
    """many systems: crosses the size thresholds of a would-be fast path (binary insertion, block-wise execution...)"""
    n = draw(near_pow2(15, 130))
    pool = n + 3
    prio = wone_of(st.integers(-3, 3), st.integers(-3, 3), st.sampled_from(PRIOS), st.integers(-40, 40))
    style = draw(st.sampled_from(["random", "descending", "ascending", "flat"]))
    ops = []
    for k, i in enumerate(draw(st.permutations(list(range(pool))))[:n]):
        p = {"random": None, "descending": n - k, "ascending": k, "flat": 0}[style]
        ops.append({"op": "add", "id": i, "prio": draw(prio) if p is None else p, "kind": "sys", "np": None})
        if k in (n // 2, n - 2):
            ops.append({"op": "step", "n": 1})
    ops.append({"op": "step", "n": 1})
    tail = wone_of(st.fixed_dictionaries({"op": st.just("add"), "id": st.integers(0, pool - 1), "prio": prio, "kind": st.just("sys"), "np": st.none()}),
                   st.fixed_dictionaries({"op": st.just("remove"), "id": st.integers(0, pool - 1)}),
                   st.fixed_dictionaries({"op": st.just("step"), "n": st.just(1)}))
    ops += draw(sized_lists(tail, 0, 25))
    return {"pool": pool, "ops": ops}


def _dual_case(draw):
    """two models alive at once, the SAME system ids with different priorities in each: per-model state must not be shared"""
    ops = [dict(o, m=draw(st.integers(0, 1))) for o in draw(sized_lists(_op(), 6, 40))]
    return {"ops": ops}


def _huge_case(draw):
    """well over a thousand systems (a scheduler that switches algorithm at 1024 entries shows): bulk registration with few
    priority levels, one timestep, then registrations that tie with existing priorities, a removal and a re-registration"""
    n = draw(st.sampled_from([1030, 1100, 1290]))
    levels = draw(st.sampled_from([[0], [0, 1], [-1, 0, 5]]))
    ops = [{"op": "add", "id": i, "prio": levels[(i * 7) % len(levels)], "kind": "sys"} for i in range(n)]
    ops.append({"op": "step", "n": 1})
    for j in range(4):
        ops.append({"op": "add", "id": n + j, "prio": draw(st.sampled_from(levels)), "kind": "sys"})
    k = draw(st.integers(0, n - 1))
    ops += [{"op": "step", "n": 1}, {"op": "remove", "id": k}, {"op": "add", "id": k, "prio": draw(st.sampled_from(levels)), "kind": "sys", "same": True},
            {"op": "step", "n": 1}]
    return {"pool": n + 4, "ops": ops}


def strategy(tier):
    hist = st.builds(lambda ops, ids: {"ops": ops, "ids": ids} if ids else {"ops": ops}, wone_of(st.lists(_op(), min_size=1, max_size=40), sized_lists(_op(), 5, 40)), st.sampled_from([None, None, None, "strsub"]))
    small = wone_of(hist, hist, st.composite(_bulk_case)(), st.composite(_bulk_case)(), st.composite(_perm_case)(), st.composite(_dual_case)())
    large = st.composite(_large_case)()
    huge = st.composite(_huge_case)()
    return st.integers(0, 1499).flatmap(lambda v: huge if v == 0 else wone_of(*([small] * 14 + [large])))


def exhaustive(tier):
    levels = [-1, 0, 2]
    maxn = 4 if tier == "quick" else 5
    for n in range(1, maxn + 1):
        for seq in itertools.product(levels, repeat=n):
            base = []
            for i, p in enumerate(seq):
                base.append({"op": "add", "id": i, "prio": p, "kind": "sys"})
                base.append({"op": "step", "n": 1})
            yield {"ops": base}
            for i in range(n):
                for p in levels:
                    yield {"ops": base + [{"op": "remove", "id": i}, {"op": "step", "n": 1},
                                          {"op": "add", "id": i, "prio": p, "kind": "sys"}, {"op": "step", "n": 1}]}
                if tier != "quick" or n <= 3:
                    yield {"ops": base + [{"op": "remove", "id": i, "via": "clean_up"}, {"op": "step", "n": 1},
                                          {"op": "add", "id": i, "prio": 0, "kind": "sys", "same": True}, {"op": "step", "n": 1}]}


NP_KINDS = {"u8": "uint8", "i8": "int8", "i64": "int64", "u64": "uint64", "u16": "uint16"}


def as_priority(op, prio):
    """numpy integer scalars are integers too (ECAgent depends on numpy): the order is by VALUE"""
    kind = op.get("np")
    if kind in NP_KINDS:
        import numpy as np
        info = np.iinfo(NP_KINDS[kind])
        v = min(max(int(prio), int(info.min)), int(info.max))
        return getattr(np, NP_KINDS[kind])(v), v
    return prio, prio


class _State:
    """bookkeeping for ONE model: several models may be alive at once (they must not influence each other)"""

    def __init__(self):
        self.model = Model()
        self.log = []
        self.live = {}          # id -> (obj, prio, seq, token)
        self.seq = 0
        self.removed_once = set()
        self.graveyard = {}     # id -> last removed object with that id
        self.rejected = {}      # id -> last object whose registration under that id was rejected


class StrName(str):
    """a typed name (str subclass): equal to, and hashing like, the plain string"""
    __slots__ = ()


def run_case(case):
    POOL = max(1, min(int(case.get("pool", 7)), 1400))          # number of system ids (large cases cross size thresholds)
    states = {}
    token = 0
    next_token = [0]        # tokens are unique per system OBJECT (a re-registered object keeps its own)
    nontrivial = False
    labels = set()
    ops = list(case["ops"]) + [{"op": "step", "n": 1}]
    if any(int(o.get("m", 0) or 0) % 2 for o in ops if isinstance(o, dict)):
        ops.append({"op": "step", "n": 1, "m": 1})
        ops.append({"op": "step", "n": 1})

    def state(op):
        m = int(op.get("m", 0) or 0) % 2
        if m not in states:
            states[m] = _State()
        if len(states) > 1:
            labels.add("two-models-alive")
        return states[m]

    def expected_order(live):
        return [t for (_, _, _, t) in sorted(live.values(), key=lambda v: (-v[1], v[2]))]

    def check_registry(where, force=False):
        if POOL > 400 and not force:           # huge pools: the full registry is compared at the timesteps only
            return
        for m, s in states.items():
            for i in range(POOL):
                got = s.model.systems[f"s{i}"]
                want = s.live[i][0] if i in s.live else None
                check(got is want, "registry-membership", f"{where}: model {m}: systems['s{i}'] is {got!r}, expected {want!r}")

    for k, op in enumerate(ops):
        kind = op.get("op")
        S = state(op) if isinstance(op, dict) and kind in ("add", "remove", "step") else None
        if S is not None:
            model, log, live, removed_once, graveyard, rejected = S.model, S.log, S.live, S.removed_once, S.graveyard, S.rejected
        if kind == "add":
            i, prio = int(op["id"]) % POOL, int(op["prio"])
            sid = StrName(f"s{i}") if case.get("ids") == "strsub" else f"s{i}"     # identifiers that are str objects of a subclass
            next_token[0] += 1
            token = next_token[0]
            given, prio = as_priority(op, prio)
            win = op.get("win")
            wkw = {"start": max(0, int(win[0])), "frequency": max(1, int(win[1]))} if win else {}
            if win and len(win) > 2 and win[2] is not None:
                wkw["end"] = int(win[2])          # a finite last timestep: afterwards the system stays registered (and keeps its place) but does not run
            if op.get("kind") == "coll":
                obj = RecCollector(sid, model, log, token, priority=given, **wkw)
            elif op.get("kind") == "colldef":
                obj = RecCollector(sid, model, log, token, **wkw)
                prio = -1
            elif op.get("kind") == "falsy":
                obj = FalsySystem(sid, model, log, token, priority=given, **wkw)
            else:
                obj = RecSystem(sid, model, log, token, priority=given, **wkw)
            if op.get("same") and i in rejected and i not in live:
                obj = rejected.pop(i)               # an object whose earlier registration was rejected (id was taken) is registered now
                prio = int(obj.priority)
                token = obj._token
                labels.add("rejected-object-registered-later")
            elif op.get("same") and i in graveyard and i not in live:
                obj = graveyard.pop(i)              # the very object that was removed earlier is registered again
                prio = int(obj.priority)
                token = obj._token
                labels.add("same-object-re-registered")
            if i in live:
                expect_raises("duplicate-add-keyerror", KeyError, model.systems.add_system, obj)
                labels.add("rejected-add")
                rejected[i] = obj
            else:
                if op.get("alias"):
                    model.systems.addSystem(obj)        # the deprecated spelling is still an entry point
                    labels.add("deprecated-aliases")
                else:
                    model.systems.add_system(obj)
                S.seq += 1
                live[i] = (obj, prio, S.seq, token)
                if i in removed_once:
                    nontrivial = True
                    labels.add("re-add")
            check_registry(f"after op {k} {op}")
        elif kind == "remove":
            i = int(op["id"]) % POOL
            if i in live:
                if op.get("via") == "clean_up":
                    live[i][0].clean_up()           # the convenience entry point: the system removes itself
                    labels.add("removed-via-clean_up")
                elif op.get("alias"):
                    model.systems.removeSystem(f"s{i}")
                    labels.add("deprecated-aliases")
                else:
                    model.systems.remove_system(f"s{i}")
                graveyard[i] = live[i][0]
                del live[i]
                removed_once.add(i)
            else:
                expect_raises("unknown-remove-error", SystemNotFoundError, model.systems.remove_system, f"s{i}")
                labels.add("rejected-remove")
            check_registry(f"after op {k} {op}")
        elif kind == "step":
            n = max(1, min(int(op.get("n", 1)), 5))
            del log[:]
            check_registry(f"before the timestep after op {k}", force=True)
            bystanders = {m_: len(s_.log) for m_, s_ in states.items() if s_ is not S}
            t_before = model.systems.timestep
            if op.get("alias"):
                for _ in range(n):
                    model.systems.executeSystems()
                labels.add("deprecated-aliases")
            else:
                model.execute(n)
            for m_, n_ in bystanders.items():
                if len(states[m_].log) != n_:
                    raise Violation("other-model-ran", f"after {k} ops: stepping one model executed systems of model {m_}: {states[m_].log[n_:]}")
            order_now = expected_order(live)
            by_token = {t_: o_ for (o_, _, _, t_) in live.values()}
            exp_all = []                    # systems with a start / frequency window only run when due - in the SAME relative order
            for ts in range(t_before, t_before + n):
                exp_all += [t_ for t_ in order_now if by_token[t_].start <= ts <= by_token[t_].end and (ts - by_token[t_].start) % by_token[t_].frequency == 0]
            got = [t for (_, t) in log]
            exp = order_now
            if got != exp_all:
                prs = {t: p for (_, p, _, t) in live.values()}
                raise Violation("execution-order",
                                f"after {k} ops, timesteps {t_before}..{t_before + n - 1}: executed tokens {got}, expected {exp_all} (token->priority {prs}, "
                                f"windows {({t_: (o_.start, o_.frequency) for t_, o_ in by_token.items() if (o_.start, o_.frequency) != (0, 1)})})")
            prios = [v[1] for v in live.values()]
            if len(prios) >= 3 and len(set(prios)) >= 2 and len(set(prios)) < len(prios):
                nontrivial = True
                labels.add("tie+levels")
            if len(prios) >= 5:
                labels.add("live>=5")
            for thr in (16, 32, 64, 128, 1024):
                if len(prios) > thr:
                    labels.add(f"live>{thr}")
            if any(p < 0 for p in prios) and any(p > 0 for p in prios):
                labels.add("mixed-sign")
        else:
            raise InvalidCase(op)
    return {"nontrivial": nontrivial, "labels": sorted(labels)}
