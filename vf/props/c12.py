"""C12 - positional queries return exactly the agents inside the leeway box."""
from fractions import Fraction

from hypothesis import strategies as st

from ECAgent.Core import Agent, Model
from ECAgent.Environments import DiscreteWorld, GridWorld, LineWorld, SpaceWorld, PositionComponent
from vf.engine import Violation, InvalidCase
from vf.fixtures import check, with_done, wone_of

PROPERTY = "C12"
BUDGET = {"quick": 5000, "thorough": 15000}
RULE = ("Continuous and grid worlds (SpaceWorld, DiscreteWorld, LineWorld, GridWorld; wrap on/off; unequal extents, zero-extent "
        "axes), 0-6 agents placed (coincident agents; agents exactly on box faces BY CONSTRUCTION: query = agent position +- "
        "leeway), some moved (move_to) or removed afterwards; 1-6 queries INTERLEAVED with further population changes (move, leave, a "
        "leave followed by another agent joining so that the head count stays equal, the same agent re-joining elsewhere), with the point inside/outside the world and "
        "leeway / x,y,z_leeway from {0, equal, one larger, negative}. All numbers are integer eighths (exact dyadic floats). "
        "Oracle: exact Fraction filter over the recorded positions, |p-q| <= max(leeway, axis_leeway) on every axis, in "
        "joining order; in wrapping worlds the toroidal distance on positive-extent axes. Non-trivial: >= 2 agents of which "
        ">= 1 inside and >= 1 outside the box, with an agent exactly on a face or leeway != axis leeway. Distinct = digest of "
        "the case. While F5 is live, a wrapping-world query whose seam-aware answer differs from the plain one is counted "
        "as masked ONLY IF the implementation returned exactly the plain (non-seam) answer."
        " Added in rounds 19-24: the model may be marked complete; shuffled / edited listings and random picks before a third of the queries; exact-number worlds: thirds as Fraction, integers beyond 2**53 4096 apart (any leeway form) and one apart (integer leeways spelt out).")
ASSUMPTIONS = ["the wrap period on an axis is its extent (the modulus SpaceWorld.move uses)",
               "positions are read back from the agents' PositionComponent (recorded positions)"]
LIVE = set()


def configure(live):
    LIVE.clear()
    LIVE.update(live)


def build(case):
    m = Model()
    kind = case["kind"]
    e = [int(v) for v in case["ext"]]
    wrap = bool(case.get("wrap"))
    if kind == "space":
        if any(v < 0 for v in e):
            raise InvalidCase("ext")
        env = SpaceWorld(m, e[0] / 8.0, e[1] / 8.0, e[2] / 8.0, wrap_env=wrap)
        ext = [Fraction(v, 8) for v in e]
    else:
        g = [v // 8 for v in e]
        if kind == "line":
            if g[0] < 1:
                raise InvalidCase("ext")
            env = LineWorld(m, g[0], wrap_env=wrap)
            g = [g[0], 0, 0]
        elif kind == "grid":
            if g[0] < 1 or g[1] < 1:
                raise InvalidCase("ext")
            env = GridWorld(m, g[0], g[1], wrap_env=wrap)
            g = [g[0], g[1], 0]
        elif kind == "discrete":
            env = DiscreteWorld(m, g[0], g[1], g[2], wrap_env=wrap)
        else:
            raise InvalidCase(kind)
        ext = [Fraction(v) for v in g]
    m.set_environment(env)
    return m, env, ext, wrap


def _p3(pos):
    """exactly three coordinates (minimised cases may carry shorter lists)"""
    return (list(pos) + [0, 0, 0])[:3]


def coord(kind, v):
    """case value (integer eighths) -> the number handed to ECAgent"""
    if kind == "space":
        return v / 8.0
    return v // 8


def clampin(kind, v, ext_axis):
    """make an agent coordinate legal for placement on this axis"""
    if ext_axis <= 0:
        return v if kind == "space" else (v // 8) * 8
    hi = ext_axis * 8 if kind == "space" else (ext_axis - 1) * 8
    v = v % (int(hi) + 1) if hi > 0 else 0
    return v if kind == "space" else (v // 8) * 8


HAIR = Fraction(1, 2 ** 40)      # continuous worlds: coordinates a hair off the eighths grid (exactly representable, sums stay exact)


def hairs(kind, pos, hair, ext):
    """per-axis hair (-1, 0, +1) that keeps a placement legal: not below 0, not beyond the far edge of a positive axis"""
    out = []
    for ax, (v, h) in enumerate(zip(pos, (list(hair or []) + [0, 0, 0])[:3])):
        h = max(-1, min(1, int(h))) if kind == "space" else 0
        if ext[ax] > 0 and ((h < 0 and v <= 0) or (h > 0 and Fraction(v, 8) >= ext[ax])):
            h = 0
        out.append(h)
    return out


def run_exact(case):
    """continuous worlds whose coordinates no float can hold: thirds (fractions.Fraction) and integers beyond 2**53 a few thousand
    apart. Positions, query points and leeways are exact numbers (or left to the defaults), so the answer is the exact geometric
    filter: agents differ from every box face by at least a third / by 4096, far more than any rounding."""
    thirds = case["exact"] == "thirds"
    dense = case["exact"] == "dense"         # integers beyond 2**53 ONE apart (closer than a float step): exact with explicit integer leeways
    model = Model()
    env = SpaceWorld(model, 12, 12, 0) if thirds else SpaceWorld(model, 2 ** 62, 2 ** 62, 0)

    def num(k):
        return Fraction(int(k) % 34, 3) if thirds else 2 ** 53 + 1 + (1 if dense else 4096) * (int(k) % 34)
    agents = []
    for i, (kx, ky) in enumerate(case["slots"][:12]):
        a = Agent(f"a{i}", model)
        env.add_agent(a, num(kx), num(ky))
        agents.append((a, num(kx), num(ky)))
    step = Fraction(1, 3) if thirds else (1 if dense else 4096)
    labels = {"exact-thirds" if thirds else ("exact-integers-beyond-2**53-one-apart" if dense else "exact-integers-beyond-2**53")}
    hit = False
    for qi, q in enumerate(case["queries"][:12]):
        qx, qy = num(q["x"]), num(q["y"])
        lw = q.get("leeway")                       # None: left to the default; otherwise a whole number of steps
        xl = q.get("x_leeway")
        kw = {}
        if dense and lw is None:
            lw = 0                                  # the float default (0.0) would round such coordinates: the leeway is always spelt out as an integer
        if lw is not None:
            kw["leeway"] = int(lw) * step
        if xl is not None:
            kw["x_leeway"] = int(xl) * step
        L = kw.get("leeway", 0)
        exp = [a.id for a, ax, ay in agents if abs(ax - qx) <= max(L, kw.get("x_leeway", 0)) and abs(ay - qy) <= L]
        try:
            if q.get("by_kw") or "x_leeway" in kw:
                got = env.get_agents_at(qx, qy, **kw)
            else:
                got = env.get_agents_at(qx, qy, 0, *([kw["leeway"]] if "leeway" in kw else []))
        except Exception as e:
            raise Violation("query-raised", f"exact world ({case['exact']}), query {qi} at {(qx, qy)} {kw}: {type(e).__name__}: {e}")
        ids = [getattr(g, "id", g) for g in got]
        if ids != exp:
            raise Violation("missing-agent" if set(exp) - set(ids) else "extra-agent",
                            f"exact world ({case['exact']}): agents {[(a.id, str(ax), str(ay)) for a, ax, ay in agents]}; query point {(str(qx), str(qy))} {({k: str(v) for k, v in kw.items()})}: got {ids}, expected {exp}")
        hit = hit or bool(exp)
    return {"nontrivial": hit, "labels": sorted(labels)}


def run_case(case):
    if case.get("exact"):
        return run_exact(case)
    model, env, ext, wrap = build(case)
    kind = case["kind"]
    if case.get("done") == 0:       # the model was marked complete before anybody was placed / after everybody was placed
        model.complete()
    agents = []          # (agent, joined order)
    for i, a in enumerate(case["agents"][:300]):
        pos = [clampin(kind, int(v), ext[ax]) for ax, v in enumerate(_p3(a["pos"]))]
        ag = Agent(f"a{i}", model)
        try:
            env.add_agent(ag, *[coord(kind, v) + float(h * HAIR) if h else coord(kind, v) for v, h in zip(pos, hairs(kind, pos, a.get("hair"), ext))])
        except Exception as e:
            raise Violation("placement-raised", f"placing agent {i} at {pos} (eighths) raised {type(e).__name__}: {e}")
        agents.append(ag)
    resident = list(agents)
    labels = set()
    if case.get("done") is not None:
        model.complete()
        labels.add("model-completed-then-used")
    world2 = None
    if len(case["agents"]) % 2:
        # a second world of the same kind, created afterwards and alive throughout, whose agents carry the SAME ids and all stand
        # in the origin: worlds are independent of each other
        model2, world2, _, _ = build(case)
        for i in range(min(len(agents), 4)):
            world2.add_agent(Agent(f"a{i}", model2), 0, 0, 0)
        labels.add("second-world-alive")
    counter = [len(agents)]
    expect_pos = {}

    def remember(ag, pos, hair=(0, 0, 0)):
        expect_pos[id(ag)] = tuple((Fraction(int(v), 8) + h * HAIR) if kind == "space" else Fraction(int(v) // 8) for v, h in zip(pos, hair))

    for ag, a_ in zip(agents, case["agents"]):
        pos_ = [clampin(kind, int(v), ext[ax]) for ax, v in enumerate(_p3(a_["pos"]))]
        remember(ag, pos_, hairs(kind, pos_, a_.get("hair"), ext))
        if any(hairs(kind, pos_, a_.get("hair"), ext)):
            labels.add("off-grid-coordinates")

    def change(mv):
        if mv.get("add") is not None:                      # a newcomer joins (possibly right after somebody left)
            if len(resident) >= 300:
                return
            pos = [clampin(kind, int(v), ext[ax]) for ax, v in enumerate(_p3(mv["add"]))]
            ag = Agent(f"a{counter[0]}", model)
            counter[0] += 1
            env.add_agent(ag, *[coord(kind, v) for v in pos])
            resident.append(ag)
            remember(ag, pos)
            labels.add("late-joiner")
            return
        if not resident:
            return
        ag = resident[int(mv["a"]) % len(resident)]
        if mv.get("shift") is not None:
            # a relative move by eighths (fractional also in grid worlds: agents wander continuously over a grid). Where it
            # lands is C08's business; the query must find the agent wherever its position component says it stands
            try:
                env.move(ag, *[int(v) / 8.0 for v in _p3(mv["shift"])])
            except Exception as e:
                raise Violation("move-raised", f"move by {mv['shift']} (eighths) raised {type(e).__name__}: {e}")
            expect_pos[id(ag)] = tuple(Fraction(v) for v in ag[PositionComponent].xyz())
            labels.add("shifted-agent" + ("-off-cell" if kind != "space" and any(c.denominator != 1 for c in expect_pos[id(ag)]) else ""))
            return
        if mv.get("remove"):
            env.remove_agent(ag.id)
            resident.remove(ag)
            labels.add("removed-agent")
            if mv.get("rejoin") is not None:               # the same agent object re-joins elsewhere (now last in joining order)
                pos = [clampin(kind, int(v), ext[ax]) for ax, v in enumerate(_p3(mv["rejoin"]))]
                env.add_agent(ag, *[coord(kind, v) for v in pos])
                resident.append(ag)
                remember(ag, pos)
                labels.add("rejoined-agent")
        else:
            pos = [clampin(kind, int(v), ext[ax]) for ax, v in enumerate(_p3(mv["to"]))]
            positive = [ax for ax in range(3) if ext[ax] >= 1]      # (what a world thinner than 1 does with far moves is not C12's business)
            if mv.get("bad_axis") is not None and positive:
                # an absolute move that is in range on the earlier axes and out of range on one axis: rejected, nothing moves
                ax = positive[int(mv["bad_axis"]) % len(positive)]
                bad = [coord(kind, v) for v in pos]
                bad[ax] = -1 if int(mv["bad_axis"]) % 2 else (float(ext[ax]) + 1 if kind == "space" else int(ext[ax]))
                try:
                    env.move_to(ag, *bad)
                except IndexError:
                    labels.add("rejected-move")
                    return
                raise Violation("out-of-range-move-accepted", f"move_to {bad} was accepted")
            thin = [ax for ax in range(3) if 0 < ext[ax] < 1]
            if mv.get("far") and kind == "space" and thin:
                # continuous worlds thinner than 1 on an axis: an absolute move beyond the far edge is left to the world (the
                # tree accepts it); wherever the agent then stands, the positional query must find it there
                for ax in thin:
                    pos[ax] = int(_p3(mv["to"])[ax])
                try:
                    env.move_to(ag, *[coord(kind, v) for v in pos])
                except IndexError:
                    labels.add("rejected-move")
                    return
                remember(ag, pos)
                labels.add("agent-beyond-thin-world-edge" if any(Fraction(pos[ax], 8) > ext[ax] for ax in thin) else "moved-agent")
                return
            try:
                env.move_to(ag, *[coord(kind, v) for v in pos])
            except Exception as e:
                raise Violation("move-raised", f"move_to {pos} (eighths) raised {type(e).__name__}: {e}")
            remember(ag, pos)
            labels.add("moved-agent")

    for mv in case.get("moves", [])[:6]:
        change(mv)
    script = [("q", q) for q in case.get("queries", [])[:8]]
    if case.get("script") is not None:                     # queries interleaved with population changes
        script = [("q", st_["q"]) if "q" in st_ else ("c", st_["c"]) for st_ in case["script"][:16]]
    masked = 0
    nontrivial = False
    for qi, (what, q) in enumerate(script):
        if what == "c":
            change(q)
            continue
        if (qi + len(script)) % 3 == 0:
            # the world's other services in between: shuffled listings and listings that the caller edits, random picks
            for lst_ in (env.shuffle(), env.get_agents()):
                if isinstance(lst_, list):
                    lst_.reverse()
                    del lst_[:1]
            env.get_random_agent()
            labels.add("other-services-used")
        pt = [Fraction(int(v), 8) + (max(-1, min(1, int(h))) * HAIR if kind == "space" else 0)
              for v, h in zip(q["q"], (list(q.get("qhair") or []) + [0, 0, 0])[:3])]
        if q.get("rel") is not None and resident:       # the query point is given relative to where an agent stands NOW
            anchor = resident[int(q["rel"]) % len(resident)][PositionComponent]
            pt = [Fraction(a_) + Fraction(int(v) % 5 - 2, 8) * (1 if q.get("rel_off") else 0) for a_, v in zip(anchor.xyz(), q["q"])]
            labels.add("query-around-current-position")
        lee = Fraction(int(q.get("lee", 0)), 8)
        axl = [Fraction(int(v), 8) for v in q.get("axl", (0, 0, 0))]
        kwargs = {}
        if q.get("lee") is not None and (q.get("lee") != 0 or q.get("pass_zero")):
            kwargs["leeway"] = float(lee)
        for name, v in zip(("x_leeway", "y_leeway", "z_leeway"), axl):
            if v != 0 or q.get("pass_zero"):
                kwargs[name] = float(v)
        recorded = []
        for ag in resident:
            pc = ag[PositionComponent]
            if pc is None:
                raise Violation("resident-without-position", f"resident agent {ag.id} has no PositionComponent")
            recorded.append((ag, [Fraction(v) for v in pc.xyz()]))
            if id(ag) in expect_pos and tuple(recorded[-1][1]) != expect_pos[id(ag)]:
                raise Violation("position-drifted", f"agent {ag.id} stands at {[str(c) for c in recorded[-1][1]]}, the last accepted placement / "
                                                    f"move put it at {[str(c) for c in expect_pos[id(ag)]]}")
        plain, seam = [], []
        onface = False
        for ag, p in recorded:
            in_plain = in_seam = True
            for ax in range(3):
                lim = max(lee, axl[ax])
                dist = abs(p[ax] - pt[ax])
                if dist > lim:
                    in_plain = False
                if wrap and ext[ax] > 0:
                    dmod = dist % ext[ax]
                    tor = min(dmod, ext[ax] - dmod)
                    if tor > lim:
                        in_seam = False
                elif dist > lim:
                    in_seam = False
                if dist == lim and lim >= 0:
                    onface = True
            if in_plain:
                plain.append(ag.id)
            if in_seam:
                seam.append(ag.id)
        def ask():
            if q.get("positional"):         # all seven arguments by position (omitted leeways are their documented default 0)
                return env.get_agents_at(float(pt[0]), float(pt[1]), float(pt[2]), kwargs.get("leeway", 0.0), kwargs.get("x_leeway", 0.0),
                                         kwargs.get("y_leeway", 0.0), kwargs.get("z_leeway", 0.0))
            if q.get("kw_point"):           # the query point by keyword too, trailing zero coordinates left to their defaults
                pkw = {n_: float(v_) for n_, v_ in zip(("x_pos", "y_pos", "z_pos"), pt) if v_ != 0}
                return env.get_agents_at(**pkw, **kwargs)
            return env.get_agents_at(float(pt[0]), float(pt[1]), float(pt[2]), **kwargs)
        try:
            got = ask()
            first_ids = [getattr(g, "id", g) for g in got] if isinstance(got, list) else None
            if isinstance(got, list):
                # the caller edits the list it was handed (drops itself, appends a marker) and asks the same question again
                edited = list(got)
                if got:
                    got.pop(0)
                got.append("junk")
                again = ask()
                if again is got or not isinstance(again, list) or [getattr(g, "id", g) for g in again] != first_ids:
                    raise Violation("answer-changed-after-caller-edited-the-result",
                                    f"query {q}: first answer {first_ids}; after the caller edited that list the same query answered "
                                    f"{[getattr(g, 'id', g) for g in again] if isinstance(again, list) else again!r}")
                got = edited
        except Violation:
            raise
        except Exception as e:
            raise Violation("query-raised", f"query {q} raised {type(e).__name__}: {e}")
        if not isinstance(got, list):
            raise Violation("not-a-list", f"query {q} returned {got!r}")
        got_ids = [getattr(g, "id", g) for g in got]
        ctx = (f"world {kind} ext={[str(e) for e in ext]} wrap={wrap}; positions {[(a.id, [str(c) for c in p]) for a, p in recorded]}; "
               f"query point {[str(c) for c in pt]} leeway {lee} axis leeways {[str(c) for c in axl]}")
        if plain == seam:
            if got_ids != plain:
                clause = "extra-agent" if set(got_ids) - set(plain) else ("missing-agent" if set(plain) - set(got_ids) else "order")
                raise Violation(clause, f"{ctx}: returned {got_ids}, expected {plain}")
        else:
            labels.add("seam-query")
            if "F5" in LIVE:
                if got_ids == plain:
                    masked += 1
                elif got_ids != seam:
                    raise Violation("seam-neither", f"{ctx}: returned {got_ids}; plain answer {plain}, seam-aware answer {seam}")
            elif got_ids != seam:
                raise Violation("seam-ignored", f"{ctx}: returned {got_ids}, seam-aware answer is {seam} (plain box gives {plain})")
        inside = len(plain)
        if len(recorded) >= 2 and 0 < inside < len(recorded) and (onface or any(a != lee for a in axl if a != 0)):
            nontrivial = True
        if onface:
            labels.add("agent-on-face")
        if lee < 0 or any(a < 0 for a in axl):
            labels.add("negative-leeway")
        if any(a > lee for a in axl):
            labels.add("axis-leeway-larger")
        if inside == 0:
            labels.add("empty-answer")
        # the query must not disturb the environment
    if [a.id for a in env] != [a.id for a in resident]:
        raise Violation("environment-disturbed", f"environment holds {[a.id for a in env]}, expected {[a.id for a in resident]}")
    if len(agents) > 32:
        labels.add("population>32")
    if world2 is not None:
        got2 = [a.id for a in world2.get_agents_at(0, 0, 0)]
        if got2 != [f"a{i}" for i in range(min(len(agents), 4))]:
            raise Violation("other-world-disturbed", f"a second world whose agents all stand in the origin answers get_agents_at(0, 0, 0) with {got2}")
    return {"nontrivial": nontrivial, "labels": sorted(labels) + [kind, "wrap" if wrap else "nowrap"], "excluded": masked}


def strategy(tier):
    @st.composite
    def case(draw):
        kind = draw(st.sampled_from(["space", "space", "discrete", "grid", "line"]))
        wrap = draw(st.booleans())
        if kind == "space":
            ext = [draw(st.sampled_from([0, 8, 20, 40, 64, 100, 3, 4, 7])) for _ in range(3)]
            if ext[0] == 0 and draw(st.booleans()):
                ext[0] = 40
        elif kind == "discrete":
            ext = [8 * draw(st.sampled_from([0, 1, 2, 3, 5, 7])) for _ in range(3)]
        elif kind == "grid":
            ext = [8 * draw(st.integers(1, 7)), 8 * draw(st.integers(1, 6)), 0]
        else:
            ext = [8 * draw(st.integers(1, 12)), 0, 0]
        step = 1 if kind == "space" else 8
        na = draw(wone_of(st.integers(0, 6), st.integers(2, 6), st.integers(3, 6)))
        c = st.integers(0, 13).map(lambda k: k * step)

        def agent_coord(ax):
            if ext[ax] <= 0:
                return draw(st.sampled_from([0, 0, 0, 0, step, -step, 3 * step]))
            far = ext[ax] if kind == "space" else ext[ax] - 8
            return draw(wone_of(c, c, st.sampled_from([0, far, far, max(far - step, 0)])))
        agents = []
        for _ in range(na):
            if agents and draw(st.integers(0, 4)) == 0:
                agents.append({"pos": list(draw(st.sampled_from(agents))["pos"])})       # coincident
            else:
                agents.append({"pos": [agent_coord(ax) for ax in range(3)]})
            if kind == "space" and draw(st.integers(0, 3)) == 0:
                agents[-1]["hair"] = [draw(st.sampled_from([0, 0, 1, -1])) for _ in range(3)]
        moves = draw(st.lists(wone_of(
            st.fixed_dictionaries({"a": st.integers(0, 5), "to": st.tuples(c, c, c).map(list)}),
            st.fixed_dictionaries({"a": st.integers(0, 5), "remove": st.just(True)})), max_size=3))
        for mv in moves:
            if "to" in mv:
                mv["to"] = [v if ext[ax] > 0 else 0 for ax, v in enumerate(_p3(mv["to"]))]
        queries = []
        for _ in range(draw(st.integers(1, 6))):
            lee = draw(st.sampled_from([0, 0, step, step, 2 * step, 2 * step, 3 * step, 12, 4 * step, 6 * step, 0, -step]))
            axl = [draw(st.sampled_from([0, 0, 0, 0, lee, lee + step, 2 * step, 5 * step, 0, 0, step, -step])) for _ in range(3)]
            if agents and draw(st.integers(0, 2)) > 0:
                base = draw(st.sampled_from(agents))["pos"]
                q = []
                for ax in range(3):
                    lim = max(lee, axl[ax])
                    q.append(base[ax] + draw(st.sampled_from([0, lim, -lim, lim + step, -(lim + step), step, -step])))
            else:
                q = [draw(st.integers(-3, 16)) * step for _ in range(3)]
            queries.append({"q": q, "lee": lee, "axl": axl, "pass_zero": draw(st.booleans())})
            conv = draw(st.sampled_from(["mixed", "mixed", "positional", "kw_point"]))
            if conv != "mixed":
                queries[-1][conv] = True
            if kind == "space" and draw(st.integers(0, 3)) == 0:
                queries[-1]["qhair"] = [draw(st.sampled_from([0, 0, 1, -1])) for _ in range(3)]
        script = []
        for q in queries:
            for _ in range(draw(st.sampled_from([0, 0, 1, 2]))):
                how = draw(st.sampled_from(["move", "remove", "swap", "rejoin", "add", "shift", "shift"]))
                pos3 = [draw(c) if ext[ax] > 0 else 0 for ax in range(3)]
                a = draw(st.integers(0, 7))
                if how == "move":
                    if kind == "space" and any(0 < e_ < 8 for e_ in ext) and draw(st.booleans()):
                        script.append({"c": {"a": a, "to": pos3, "far": True}})
                        q = dict(q, rel=a, rel_off=draw(st.booleans()))
                    else:
                        script.append({"c": {"a": a, "to": pos3, "bad_axis": draw(st.sampled_from([None, None, 0, 1, 2, 3, 4, 5]))}})
                elif how == "shift":
                    script.append({"c": {"a": a, "shift": [draw(st.sampled_from([0, 0, 4, -4, 12, -12, 3, 100, -100, 8, -8])) for _ in range(3)]}})
                    if draw(st.booleans()):
                        q = dict(q, rel=a, rel_off=draw(st.booleans()))
                elif how == "remove":
                    script.append({"c": {"a": a, "remove": True}})
                elif how == "rejoin":
                    script.append({"c": {"a": a, "remove": True, "rejoin": pos3}})
                elif how == "add":
                    script.append({"c": {"add": pos3}})
                else:                                       # somebody leaves, somebody else joins: the head count stays the same
                    script.append({"c": {"a": a, "remove": True}})
                    script.append({"c": {"add": pos3}})
            script.append({"q": q})
        if draw(st.integers(0, 13)) == 0:            # a crowd whose size sits on / next to a block size
            from vf.fixtures import near_pow2
            target = draw(near_pow2(31, 130))
            while len(agents) < target:
                agents.append({"pos": [agent_coord(ax) for ax in range(3)]})
        return {"kind": kind, "ext": ext, "wrap": wrap, "agents": agents, "moves": moves, "script": script}
    slot = st.tuples(st.integers(0, 5), st.integers(0, 5))
    exact = st.fixed_dictionaries({"exact": st.sampled_from(["thirds", "huge", "dense"]), "slots": st.lists(slot, min_size=1, max_size=8),
                                   "queries": st.lists(st.fixed_dictionaries({"x": st.integers(0, 5), "y": st.integers(0, 5), "by_kw": st.booleans(),
                                                                              "leeway": st.sampled_from([None, None, 0, 1, 2]),
                                                                              "x_leeway": st.sampled_from([None, None, 0, 1, 3])}), min_size=1, max_size=8)})
    return wone_of(*([with_done(case())] * 11 + [exact]))


EXHAUSTIVE_DOMAIN = ("line worlds of width 1..4 (wrap on/off) and continuous 1-D worlds of extent 1 (eighths): every placement of one "
                     "or two agents on cells / quarter points incl. both edges x every query point from one step outside to one step "
                     "outside x leeway in {0, 1 step, 2 steps} x x_leeway in {0, 1 step, 3 steps, -1 step}")


def exhaustive(tier):
    import itertools
    for wrap in (False, True):
        for w in (1, 2, 3, 4):
            cells = [8 * c for c in range(w)]
            placements = [[a] for a in cells] + ([[a, b] for a in cells for b in cells] if (tier != "quick" or w <= 3) else [])
            for pl in placements:
                queries = []
                for q in range(-8, 8 * w + 1, 8):
                    for lee in (0, 8, 16):
                        for xl in (0, 8, 24, -8):
                            queries.append({"q": [q, 0, 0], "lee": lee, "axl": [xl, 0, 0], "pass_zero": False})
                for chunk in range(0, len(queries), 8):
                    yield {"kind": "line", "ext": [8 * w, 0, 0], "wrap": wrap, "agents": [{"pos": [a, 0, 0]} for a in pl], "moves": [],
                           "queries": queries[chunk:chunk + 8]}
        pts = [0, 2, 4, 6, 8]
        for pl in [[a] for a in pts] + [[a, b] for a in pts for b in pts if tier != "quick" or a <= b]:
            queries = []
            for q in (-2, 0, 2, 4, 6, 8, 10):
                for lee in (0, 2, 4):
                    for xl in (0, 2, 6, -2):
                        queries.append({"q": [q, 0, 0], "lee": lee, "axl": [xl, 0, 0], "pass_zero": True})
            for chunk in range(0, len(queries), 8):
                yield {"kind": "space", "ext": [8, 0, 0], "wrap": wrap, "agents": [{"pos": [a, 0, 0]} for a in pl], "moves": [],
                       "queries": queries[chunk:chunk + 8]}
