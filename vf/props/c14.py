"""C14 - a parameter list builds the exact Cartesian product, once each."""
import copy

import numpy as np
from hypothesis import strategies as st

from ECAgent.Batching import ParameterList
from vf.engine import Violation, InvalidCase
from vf.fixtures import check, expect_raises, sized_lists, wone_of

PROPERTY = "C14"
BUDGET = {"quick": 6000, "thorough": 18000}
RULE = ("0-5 parameters with arbitrary str names (empty, unicode); values: scalar (int, float, None, bool, opaque object, Fraction, complex, numpy scalar, zero-dimensional numpy array), str (also "
        "empty), list / tuple / range / 1-D numpy array of length 0-4 with repeated values; declared through the constructor "
        "dict and/or a history (0-10 ops) of add_parameter / remove_parameter incl. invalid ops (non-str name -> AttributeError, "
        "duplicate -> KeyError, unknown remove -> KeyError; constructor with a non-str key -> AttributeError). After EVERY op "
        "build() is compared with an independent recursive nested-loop product (first-declared slowest, strings and scalars as "
        "singletons): same length, same dict per index (names, values == and same type); two builds give equal lists of "
        "distinct dict objects; mutating a returned dict changes neither the next build nor the caller-held value objects. "
        "Non-trivial: >= 2 parameters with >= 2 values each at some build. Distinct = digest of the case."
        " Added in rounds 19-24: re-iterable collections that are not sequences (__iter__ only); an operation 'use' runs a serial grid_search and a batch_run over the list between builds.")
ASSUMPTIONS = ["one-shot iterators, dicts, sets and bytes are outside the stated domain and not generated"]

_OBJ = [object() for _ in range(3)]


class AnyModel(__import__("ECAgent.Core", fromlist=["Model"]).Model):
    """a model that takes whatever parameters it is given and finishes at once (for the experiments run on a list between builds)"""
    def __init__(self, **kw):
        super().__init__()
        self.complete()


def any_score(model):
    return 0


class Steps:
    """a re-iterable collection that is not a sequence: it can be iterated any number of times (__iter__) but has no len() and no
    indexing - an Iterable in the sense of the documentation all the same"""
    def __init__(self, items):
        self.items = list(items)

    def __iter__(self):
        return iter(list(self.items))


def make_value(spec):
    k = spec["k"]
    if k == "steps":
        return Steps(spec["v"])
    if k == "scalar":
        return spec["v"]
    if k == "obj":
        return _OBJ[int(spec["v"]) % 3]
    if k == "np0d":                     # a zero-dimensional numpy array: a scalar in array clothing (has no length, cannot be iterated)
        return np.asarray(spec["v"])
    if k == "npscalar":
        return (np.float64 if isinstance(spec["v"], float) else np.int64)(spec["v"])
    if k == "frac":
        from fractions import Fraction
        return Fraction(int(spec["v"]), 3)
    if k == "complex":
        return complex(spec["v"], 1)
    if k == "str":
        return str(spec["v"])
    if k == "nested":                   # a collection whose VALUES are themselves containers (layouts, records, vectors)
        outer = [_elem(e) for e in spec["v"]]
        return tuple(outer) if spec.get("as") == "tuple" else outer
    if k == "list":
        return list(spec["v"])
    if k == "tuple":
        return tuple(spec["v"])
    if k == "range":
        return range(int(spec["v"]) % 5)
    if k == "array":
        vals = [x for x in spec["v"] if isinstance(x, (int, float)) and not isinstance(x, bool)]
        return np.array(vals, dtype=np.float64 if any(isinstance(x, float) for x in vals) else np.int64)
    raise InvalidCase(k)


def _elem(e):
    kind, payload = e
    if kind == "list":
        return list(payload)
    if kind == "dict":
        return {"k": payload, "n": len(payload)}
    if kind == "set":
        return set(payload)
    if kind == "array":
        return np.array(payload, dtype=np.int64)
    if kind == "tuple":
        return tuple(payload)
    return payload


def elements(val):
    """the values a declared parameter stands for (independent of ECAgent: by index, never by iterating like the code does)"""
    if isinstance(val, str):
        return [val]
    if isinstance(val, Steps):
        return list(val.items)
    if isinstance(val, (list, tuple, range)):
        return [val[i] for i in range(len(val))]
    if isinstance(val, np.ndarray) and val.ndim >= 1:
        return [val[i] for i in range(val.shape[0])]
    return [val]


def product(decl):
    out = [{}]
    for name, val in decl:
        out = [dict(d, **{name: e}) if True else None for d in out for e in elements(val)]
    return out


def same_value(a, b):
    if isinstance(b, np.ndarray) and b.ndim >= 1:
        return isinstance(a, np.ndarray) and a.shape == b.shape and bool(np.array_equal(a, b))
    if isinstance(a, np.ndarray) and not (isinstance(b, np.ndarray) and b.ndim == 0):
        return False
    return _same_value(a, b)


def _same_value(a, b):
    if isinstance(b, np.ndarray) and b.ndim == 0:       # the single value a 0-d array stands for: itself or its scalar
        return np.ndim(a) == 0 and bool(a == b)
    if type(a) is not type(b):
        return False
    if a is b:
        return True
    try:
        return bool(a == b)
    except Exception:
        return False


def snapshot_value(val):
    if isinstance(val, np.ndarray):
        return ("array", val.dtype.str, val.tolist())
    if isinstance(val, range):
        return ("range", val.start, val.stop, val.step)
    if isinstance(val, (list, tuple)):
        return (type(val).__name__, list(val))
    return ("other", id(val) if val.__class__ is object else val)


def run_case(case):
    decl = []                 # [(name, value object)] in declaration order
    held = {}                 # name -> (value object, snapshot)
    labels = set()
    nontrivial = False
    ctor = case.get("ctor")
    twin = twin_src = None
    # two further lists created without arguments, one before and one after the list under test, each with one parameter of
    # its own: lists are independent of each other (whichever way they were constructed)
    bystanders = [ParameterList()]
    if ctor is None:
        pl = ParameterList()
    else:
        d = {}
        for name, spec in ctor:
            if name in d:
                continue
            d[str(name)] = make_value(spec)
        if case.get("ctor_bad_key"):
            bad = dict(d)
            bad[7] = [1, 2]
            expect_raises("ctor-nonstr-key", AttributeError, ParameterList, bad)
            labels.add("ctor-rejected")
        pl = ParameterList(d)
        decl = list(d.items())
        twin_src = d                      # the caller keeps using the dict it passed in: a second list is built from it,
        twin = ParameterList(d)           # and the dict itself is edited afterwards - none of this may reach `pl`
        twin_decl = list(d.items())
        d_snapshot = list(d.items())
    for name, val in decl:
        held[name] = (val, snapshot_value(val))
    bystanders.append(ParameterList())
    bystanders[0].add_parameter("a", [7, 8])
    bystanders[1].add_parameter("\x00other", 5)

    def verify_bystanders(where):
        got = [b.build() for b in bystanders]
        if got != [[{"a": 7}, {"a": 8}], [{"\x00other": 5}]]:
            raise Violation("lists-share-state", f"{where}: two other lists declared as a=[7, 8] and '\\x00other'=5 now build {got}")

    def verify(where):
        nonlocal nontrivial
        exp = product(decl)
        try:
            b1 = pl.build()
            b2 = pl.build()
        except Exception as e:
            raise Violation("build-raised", f"{where}: build() raised {type(e).__name__}: {e}")
        for tag, b in (("first", b1), ("second", b2)):
            if not isinstance(b, list) or len(b) != len(exp):
                raise Violation("product-size", f"{where}: {tag} build has {len(b) if isinstance(b, list) else b!r} combinations, expected "
                                                f"{len(exp)} for {[(n, snapshot_value(v)) for n, v in decl]}")
            for i, (g, e) in enumerate(zip(b, exp)):
                if not isinstance(g, dict) or list(g.keys()) != list(e.keys()) and set(g.keys()) != set(e.keys()):
                    raise Violation("combination-names", f"{where}: combination {i} has names {list(g) if isinstance(g, dict) else g!r}, expected {list(e)}")
                for name in e:
                    if not same_value(g[name], e[name]):
                        raise Violation("combination-values", f"{where}: combination {i} of {len(exp)}: {name!r} = {g[name]!r} "
                                                              f"({type(g[name]).__name__}), expected {e[name]!r} ({type(e[name]).__name__}); "
                                                              f"declaration {[(n, snapshot_value(v)) for n, v in decl]}")
        ids = [id(x) for x in b1] + [id(x) for x in b2]
        if len(set(ids)) != len(ids):
            raise Violation("dicts-not-independent", f"{where}: the same dict object is returned more than once")
        if b1:
            b1[0]["__poison__"] = 1
            for name in list(b1[-1]):
                b1[-1][name] = "poisoned"
            b1.append({"junk": 1})
            b3 = pl.build()
            if len(b3) != len(exp) or any("__poison__" in d for d in b3) or \
                    any(not same_value(g[n], e[n]) for g, e in zip(b3, exp) for n in e):
                raise Violation("build-not-repeatable", f"{where}: after mutating a returned combination the next build differs")
        for name, (val, snap) in held.items():
            if snapshot_value(val) != snap:
                raise Violation("declaration-mutated", f"{where}: the caller's value object for {name!r} changed from {snap} to {snapshot_value(val)}")
        if sum(1 for _, v in decl if len(elements(v)) >= 2) >= 2:
            nontrivial = True
        if len(exp) == 0:
            labels.add("empty-product")
        if not decl:
            labels.add("no-parameters")

    verify("after construction")
    verify_bystanders("after construction")

    def verify_twin(where):
        if twin is None:
            return
        if list(twin_src.items()) != d_snapshot:
            raise Violation("caller-dict-mutated", f"{where}: the dict passed to the constructor changed from {[n for n, _ in d_snapshot]} to "
                                                   f"{list(twin_src)}")
        exp = product(twin_decl)
        got = twin.build()
        if len(got) != len(exp) or any(set(g) != set(e) or any(not same_value(g[n], e[n]) for n in e) for g, e in zip(got, exp)):
            raise Violation("lists-share-state", f"{where}: a second ParameterList built from the same constructor dict now builds "
                                                 f"{len(got)} combinations with names {sorted(got[0]) if got else []}, expected {len(exp)} with "
                                                 f"{[n for n, _ in twin_decl]}")

    for k, op in enumerate(case.get("ops", [])):
        where = f"after op {k} {op}"
        names = [n for n, _ in decl]
        if op["op"] == "add":
            name = str(op["name"])
            val = make_value(op["val"])
            if name in names:
                expect_raises("duplicate-add-keyerror", KeyError, pl.add_parameter, name, val)
                labels.add("duplicate-rejected")
            else:
                pl.add_parameter(name, val)
                decl.append((name, val))
                held[name] = (val, snapshot_value(val))
        elif op["op"] == "remove":
            if names and not op.get("unknown"):
                name = names[int(op.get("i", 0)) % len(names)]
                pl.remove_parameter(name)
                decl = [(n, v) for n, v in decl if n != name]
                held.pop(name, None)
                labels.add("removed")
            else:
                expect_raises("unknown-remove-keyerror", KeyError, pl.remove_parameter, "\x00never-declared")
                labels.add("unknown-remove-rejected")
        elif op["op"] == "use":
            # the list is used for what it is meant for between two builds: a serial search and a batch run over it. Running
            # experiments over a list does not change what it builds
            from ECAgent.Batching import batch_run, grid_search
            prod = product(decl)
            if not (1 <= len(prod) <= 24) or any(n in ("records", "score") for n in names):
                continue
            try:
                grid_search(AnyModel, pl, any_score, max_timesteps=1)
                batch_run(AnyModel, pl, max_timesteps=1)
            except Exception as e:
                raise Violation("experiment-raised", f"{where}: grid_search / batch_run over the list raised {type(e).__name__}: {e}")
            labels.add("experiments-run-on-the-list")
        elif op["op"] == "bad_name":
            bad = {"int": 3, "none": None, "tuple": ("a",), "bytes": b"a"}[op.get("kind", "int")]
            expect_raises("nonstr-name-attributeerror", AttributeError, pl.add_parameter, bad, [1, 2])
            labels.add("nonstr-rejected")
        else:
            raise InvalidCase(op)
        # how often the list is built between declaration changes: after every op, after every third op, or only at the end
        # (a build in between can hide what a remove-and-redeclare without a build shows)
        vmode = case.get("verify", "every")
        if vmode == "every" or (vmode == "sparse" and k % 3 == 2) or (vmode == "end-after-first" and k == 1):
            verify(where)
            verify_twin(where)
            verify_bystanders(where)
    verify("at the end")
    verify_twin("at the end")
    verify_bystanders("at the end")
    labels.add(f"build-{case.get('verify', 'every')}")
    if twin is not None:                       # finally the caller edits its own dict: the list must not notice
        twin_src["\x00late-key"] = [1, 2, 3]
        verify("after the caller added a key to the dict it had passed to the constructor")
    for _, v in decl:
        labels.add("v-" + snapshot_value(v)[0])
    return {"nontrivial": nontrivial, "labels": sorted(labels)}


def strategy(tier):
    elem = wone_of(st.integers(-3, 3), st.sampled_from([0.5, -1.25, 1e300]), st.sampled_from(["a", "", "bc"]), st.none(), st.booleans())
    num = wone_of(st.integers(-3, 3), st.sampled_from([0.5, -1.25, 2.0]))
    val = wone_of(
        st.builds(lambda v: {"k": "scalar", "v": v}, wone_of(st.integers(-5, 5), st.sampled_from([0.5, 1e300]), st.none(), st.booleans())),
        st.builds(lambda v: {"k": "obj", "v": v}, st.integers(0, 2)),
        st.builds(lambda k, v: {"k": k, "v": v}, st.sampled_from(["np0d", "npscalar"]), wone_of(st.integers(-5, 5), st.sampled_from([0.5, -2.0]))),
        st.builds(lambda k, v: {"k": k, "v": v}, st.sampled_from(["frac", "complex"]), st.integers(-5, 5)),
        st.builds(lambda v: {"k": "str", "v": v}, st.sampled_from(["", "a", "hello", "xy"])),
        st.builds(lambda v: {"k": "list", "v": v}, st.lists(elem, max_size=4)),
        st.builds(lambda v: {"k": "list", "v": v}, st.lists(st.integers(0, 2), min_size=2, max_size=4)),
        st.builds(lambda v: {"k": "tuple", "v": v}, st.lists(elem, max_size=4)),
        st.builds(lambda v, a: {"k": "nested", "v": v, "as": a},
                  st.lists(st.tuples(st.sampled_from(["list", "dict", "set", "array", "tuple", "plain"]), st.lists(st.integers(0, 3), max_size=3)).map(list), max_size=3),
                  st.sampled_from(["list", "tuple"])),
        st.builds(lambda v: {"k": "range", "v": v}, st.integers(0, 4)),
        st.builds(lambda v: {"k": "steps", "v": v}, st.lists(st.integers(0, 3), max_size=3)),
        st.builds(lambda v: {"k": "array", "v": v}, st.lists(num, max_size=4)),
    )
    name = wone_of(st.sampled_from(["a", "b", "c", "d", "", "é", "records", "a b"]), st.text(max_size=3))
    op = wone_of(st.fixed_dictionaries({"op": st.just("add"), "name": name, "val": val}),
                   st.fixed_dictionaries({"op": st.just("add"), "name": name, "val": val}),
                   st.fixed_dictionaries({"op": st.just("remove"), "i": st.integers(0, 5), "unknown": st.sampled_from([False, False, True])}),
                   st.fixed_dictionaries({"op": st.just("bad_name"), "kind": st.sampled_from(["int", "none", "tuple", "bytes"])}),
                   st.just({"op": "use"}))
    ctor = wone_of(st.none(), st.lists(st.tuples(name, val).map(list), max_size=4))
    redeclare = st.builds(lambda nm, v1, v2, mid: {"ctor": None, "ctor_bad_key": False, "verify": "end-after-first",
                                                   "ops": [{"op": "add", "name": nm, "val": v1}, {"op": "add", "name": nm + "2", "val": {"k": "list", "v": [1, 2]}}]
                                                   + [{"op": "remove", "i": 0, "unknown": False}] + mid + [{"op": "add", "name": nm, "val": v2}]},
                          st.sampled_from(["a", "b", "x"]), val, val, st.lists(op, max_size=2))
    plain = st.fixed_dictionaries({"ctor": ctor, "ctor_bad_key": st.booleans(), "ops": sized_lists(op, 0, 10),
                                   "verify": st.sampled_from(["every", "every", "sparse", "end"])})
    return wone_of(*([plain] * 9 + [redeclare]))


EXHAUSTIVE_DOMAIN = ("every declaration of 0..3 parameters (names a, b, c in that order) over the value shapes {scalar 7, str 'xy', "
                     "empty list, [1], [1, 2], tuple (1, 1, 2), range(2), int array [3, 4]} given through the constructor, and the same "
                     "through add_parameter; thorough: additionally every single remove + re-add of one of them")


def exhaustive(tier):
    import itertools
    shapes = [{"k": "scalar", "v": 7}, {"k": "str", "v": "xy"}, {"k": "list", "v": []}, {"k": "list", "v": [1]}, {"k": "list", "v": [1, 2]},
              {"k": "tuple", "v": [1, 1, 2]}, {"k": "range", "v": 2}, {"k": "array", "v": [3, 4]}]
    names = ["a", "b", "c"]
    for n in range(0, 4):
        for combo in itertools.product(shapes, repeat=n):
            decl = [[names[i], combo[i]] for i in range(n)]
            yield {"ctor": decl, "ctor_bad_key": False, "ops": []}
            yield {"ctor": None, "ctor_bad_key": False, "ops": [{"op": "add", "name": nm, "val": v} for nm, v in decl]}
            if tier != "quick" and n >= 2:
                for i in range(n):
                    for v in (shapes[4], shapes[2]):
                        yield {"ctor": decl, "ctor_bad_key": False,
                               "ops": [{"op": "remove", "i": i, "unknown": False}, {"op": "add", "name": names[i], "val": v}]}
