"""C08 - agents stay inside the world; moves are exactly modular or saturating."""
import math
from fractions import Fraction

import numpy as np
from hypothesis import strategies as st

from ECAgent.Core import Agent, ComponentNotFoundError, Model
from ECAgent.Environments import DiscreteWorld, GridWorld, LineWorld, SpaceWorld, PositionComponent
from vf.engine import Violation, InvalidCase
from vf.fixtures import maybe_complete, with_done, check, expect_raises, sized_lists, wone_of
from vf.props.c04 import oob_error_ok

PROPERTY = "C08"
BUDGET = {"quick": 2400, "thorough": 7200}
RULE = ("World kind {SpaceWorld, DiscreteWorld, LineWorld, GridWorld} x per-axis extent (0 or >= 1, deliberately unequal) x wrap "
        "flag; 1-4 agents; histories (1-30 ops, one in five 60-160 ops) of add(pos), move(delta: small / edge-crossing / multi-lap +-(3*extent+1) / far "
        "+-1e9 / mixed signs), move_to(pos in or out of range), remove. 'exact' cases use integers (grid) or dyadic k/8 floats "
        "(continuous) and an exact Fraction model per positive axis: wrap -> (old+delta) mod extent, else clamp to "
        "[0, extent-offset]; accepted placement/move_to lands exactly, rejected ones (generic error / IndexError) change "
        "nothing, remove drops the position. 'float' cases (continuous, arbitrary finite floats |v|<=1e12) assert only "
        "containment and rejected => unchanged. Containment of every resident on every positive axis after EVERY op. "
        "Non-trivial: a move that wraps >= 1 lap or saturates on an axis whose extent differs from another positive axis'. "
        "Distinct = digest of the case."
        " Added in rounds 19-24: the model may be marked complete; placements in the origin / removals through the deprecated aliases; an operation 'use' (positional queries, listings edited by the caller, random picks - also before the first move); coordinates as zero-dimensional numpy arrays, the same array object for equal values.")
ASSUMPTIONS = ["extents are 0 or >= 1 (the property's domain)", "zero-extent axes carry no claim and are ignored",
               "dyadic arithmetic with |values| < 2^50/8 is exact in binary floating point, so the Fraction model needs no tolerance"]


def build(case):
    m = Model()
    kind = case["kind"]
    wrap = bool(case.get("wrap"))
    exact = case.get("num", "exact") == "exact"
    raw = list(case["ext"])
    if kind == "space":
        ext = [(Fraction(int(v), 8) if exact else Fraction(float(v))) for v in raw]
        if any(0 < e < 1 for e in ext) or any(e < 0 for e in ext):
            raise InvalidCase("ext")
        w = SpaceWorld(m, *(float(e) for e in ext), wrap_env=wrap)
        off = 0
    else:
        g = [int(v) for v in raw]
        if kind == "line":
            if g[0] < 1:
                raise InvalidCase("ext")
            w, g = LineWorld(m, g[0], wrap_env=wrap), [g[0], 0, 0]
        elif kind == "grid":
            if g[0] < 1 or g[1] < 1:
                raise InvalidCase("ext")
            w, g = GridWorld(m, g[0], g[1], wrap_env=wrap), [g[0], g[1], 0]
        elif kind == "discrete":
            if min(g) < 0:
                raise InvalidCase("ext")
            w = DiscreteWorld(m, *g, wrap_env=wrap)
        else:
            raise InvalidCase(kind)
        ext, off = [Fraction(v) for v in g], 1
    m.set_environment(w)
    return m, w, ext, off, wrap, exact


def run_case(case):
    model, env, ext, off, wrap, exact = build(case)
    kind = case["kind"]
    cont = kind == "space"
    agents = [Agent(f"a{i}", model) for i in range(4)]
    pos = {}                      # agent index -> [Fraction]*3 (model; only meaningful on positive axes)
    labels = set()
    nontrivial = False
    positive = [ax for ax in range(3) if ext[ax] > 0]
    unequal = len({ext[ax] for ax in positive}) >= 2
    decoy = None
    if case.get("decoy"):
        # a second world of the same kind but other extents and the opposite wrap flag, created afterwards and alive throughout,
        # with an agent of the same id that walks along x: worlds are independent of each other
        bump = 16 if cont else 2
        dcase = dict(case, ext=[(int(v) + bump if float(v) > 0 else v) for v in case["ext"]], wrap=not wrap, num="exact")
        dmodel, denv, dext, doff, dwrap, _ = build(dcase)
        dagent = Agent("a0", dmodel)
        denv.add_agent(dagent, 0, 0, 0)
        decoy = [0]

    as_np = bool(case.get("np"))          # numbers are handed over as numpy scalars (np.float64 / np.int64): numbers all the same

    arr0 = bool(case.get("arr0"))          # numbers are handed over as zero-dimensional numpy arrays, the SAME array object for equal values
    shared_arrays = {}                     # (two axes, two agents): numbers all the same - a move of one coordinate moves nothing else

    def num(v):
        """case value -> (number handed to ECAgent, exact Fraction)"""
        if arr0:
            plain, fr = (int(v) / 8.0, Fraction(int(v), 8)) if (cont and exact) else ((float(v), Fraction(float(v))) if cont else (int(v), Fraction(int(v))))
            if plain not in shared_arrays:
                shared_arrays[plain] = np.array(plain)
            return shared_arrays[plain], fr
        if cont:
            if exact:
                return (np.float64(int(v) / 8.0) if as_np else int(v) / 8.0), Fraction(int(v), 8)
            return (np.float64(v) if as_np else float(v)), Fraction(float(v))
        return (np.int64(int(v)) if as_np else int(v)), Fraction(int(v))

    style = case.get("call", "pos")        # call convention: all positional | by keyword | trailing zeros left to the defaults

    def conv(kind_, values):
        values = list(values)
        if style == "kw":
            names = ("x_pos", "y_pos", "z_pos") if kind_ == "add" else ("x", "y", "z")
            return (), dict(zip(names, values))
        if style == "short":
            while values and values[-1] == 0 and type(values[-1]) in (int, float):
                values.pop()
        return tuple(values), {}

    def add_agent_(a_, values):
        if style == "alias" and all(type(v) in (int, float) and v == 0 for v in values):
            labels.add("deprecated-alias")
            return env.addAgent(a_)         # the deprecated spelling (takes the agent only): placed in the origin like add_agent(a)
        args_, kw_ = conv("add", values)
        return env.add_agent(a_, *args_, **kw_)

    def move_(a_, values):
        args_, kw_ = conv("move", values)
        return env.move(a_, *args_, **kw_)

    def move_to_(a_, values):
        args_, kw_ = conv("move", values)
        return env.move_to(a_, *args_, **kw_)

    def hi(ax):
        return ext[ax] - off

    def actual(i):
        pc = agents[i][PositionComponent]
        return None if pc is None else tuple(c.item() if isinstance(c, np.ndarray) and c.ndim == 0 else c for c in pc.xyz())

    def check_all(where):
        for i, a in enumerate(agents):
            got = actual(i)
            if i not in pos:
                if got is not None:
                    raise Violation("position-not-dropped", f"{where}: non-resident agent a{i} still has a position {got}")
                continue
            if got is None:
                raise Violation("position-missing", f"{where}: resident agent a{i} has no position")
            for ax in positive:
                g = got[ax]
                if isinstance(g, float) and not math.isfinite(g):
                    raise Violation("outside-world", f"{where}: a{i} axis {ax} coordinate {g}")
                if not (0 <= Fraction(g) <= hi(ax)):
                    raise Violation("outside-world", f"{where}: world {kind}{[str(e) for e in ext]} wrap={wrap}: a{i} axis {ax} coordinate {g} "
                                                     f"outside 0..{hi(ax)}")
                if exact and Fraction(g) != pos[i][ax]:
                    raise Violation("wrong-landing", f"{where}: world {kind}{[str(e) for e in ext]} wrap={wrap}: a{i} axis {ax} is at {g}, "
                                                     f"expected exactly {pos[i][ax]}")
                if not exact:
                    pos[i][ax] = Fraction(g)           # float mode: follow the implementation, only containment is claimed
            for ax in range(3):
                if ax not in positive:
                    pos[i][ax] = Fraction(got[ax])

    def others_snapshot():
        return {i: actual(i) for i in range(4)}

    for k, op in enumerate(case["ops"]):
        maybe_complete(case, k, model, labels)
        kind_op = op["op"]
        i = int(op.get("a", 0)) % 4
        where = f"after op {k} {op}"
        if kind_op == "add":
            if i in pos:
                # the agent is already in the world: the placement is rejected (duplicate id) and must change nothing
                vals = [num(v) for v in (list(op["pos"]) + [0, 0, 0])[:3]]
                before = others_snapshot()
                try:
                    add_agent_(agents[i], [v[0] for v in vals])
                except Exception:
                    pass
                else:
                    raise Violation("duplicate-placement-accepted", f"{where}: adding resident agent a{i} again was accepted")
                if others_snapshot() != before:
                    raise Violation("rejected-placement-left-trace", f"{where}: re-adding resident a{i} at {[v[0] for v in vals]} was rejected but "
                                                                     f"positions changed from {before} to {others_snapshot()}")
                labels.add("duplicate-placement-rejected")
                check_all(where)
                continue
            vals = [num(v) for v in (list(op["pos"]) + [0, 0, 0])[:3]]
            inrange = all(0 <= vals[ax][1] <= hi(ax) for ax in positive)
            before = others_snapshot()
            if inrange:
                try:
                    add_agent_(agents[i], [v[0] for v in vals])
                except Exception as e:
                    raise Violation("valid-placement-rejected", f"{where}: world {kind}{[str(e_) for e_ in ext]}: placing at "
                                                                f"{[v[0] for v in vals]} raised {type(e).__name__}: {e}")
                pos[i] = [v[1] for v in vals]
                if any(vals[ax][1] == hi(ax) for ax in positive):
                    labels.add("placed-on-far-edge")
            else:
                try:
                    add_agent_(agents[i], [v[0] for v in vals])
                except Exception as e:
                    if not oob_error_ok(e):
                        raise Violation("placement-wrong-error", f"{where}: raised {type(e).__name__}: {e}")
                else:
                    raise Violation("placement-outside-accepted", f"{where}: world {kind}{[str(e_) for e_ in ext]}: placement at "
                                                                  f"{[v[0] for v in vals]} was accepted")
                if others_snapshot() != before or model.environment.get_agent(f"a{i}") is not None:
                    raise Violation("rejected-placement-left-trace", f"{where}: state changed by a rejected placement")
                labels.add("placement-rejected")
        elif kind_op == "move":
            vals = [num(v) for v in (list(op["d"]) + [0, 0, 0])[:3]]
            if i not in pos:
                expect_raises("move-nonresident-error", ComponentNotFoundError, move_, agents[i], [v[0] for v in vals])
                continue
            move_(agents[i], [v[0] for v in vals])
            for ax in positive:
                target = pos[i][ax] + vals[ax][1]
                if wrap:
                    new = target % ext[ax]
                    laps = abs(target // ext[ax])
                    if laps >= 1:
                        labels.add("wrapped")
                        if unequal:
                            nontrivial = True
                        if laps >= 2:
                            labels.add("multi-lap")
                else:
                    new = min(max(target, 0), hi(ax))
                    if new != target:
                        labels.add("saturated")
                        if unequal:
                            nontrivial = True
                        if not exact:
                            # arbitrary floats: a move beyond an edge lands EXACTLY on that edge (float addition is monotonic,
                            # so old + delta cannot round to the inner side of the edge it exceeds)
                            landed = Fraction(actual(i)[ax])
                            if landed != new:
                                raise Violation("not-saturated", f"{where}: world {kind}{[str(e) for e in ext]} (clamping): a{i} axis {ax} moved from "
                                                                 f"{float(pos[i][ax])!r} by {float(vals[ax][1])!r} and stands at {float(landed)!r}, "
                                                                 f"the edge is {float(new)!r}")
                pos[i][ax] = new
        elif kind_op == "move_to":
            vals = [num(v) for v in (list(op["pos"]) + [0, 0, 0])[:3]]
            if i not in pos:
                expect_raises("move-nonresident-error", ComponentNotFoundError, move_to_, agents[i], [v[0] for v in vals])
                continue
            inrange = all(0 <= vals[ax][1] <= hi(ax) for ax in positive)
            before = others_snapshot()
            if inrange:
                try:
                    move_to_(agents[i], [v[0] for v in vals])
                except Exception as e:
                    raise Violation("valid-move-to-rejected", f"{where}: world {kind}{[str(e_) for e_ in ext]}: move_to "
                                                              f"{[v[0] for v in vals]} raised {type(e).__name__}: {e}")
                pos[i] = [v[1] for v in vals]
                labels.add("move-to-accepted")
            else:
                expect_raises("move-to-outside-error", IndexError, move_to_, agents[i], [v[0] for v in vals])
                if others_snapshot() != before:
                    raise Violation("rejected-move-to-left-trace", f"{where}: positions changed from {before} to {others_snapshot()}")
                labels.add("move-to-rejected")
        elif kind_op == "remove":
            if i not in pos:
                continue
            if style == "alias":
                env.removeAgent(f"a{i}")     # the deprecated spelling
                labels.add("deprecated-alias")
            else:
                env.remove_agent(f"a{i}")
            del pos[i]
            labels.add("removed")
        elif kind_op == "use":
            # the world's other services in between: positional queries, listings the caller edits, random picks
            got_ = env.get_agents_at(0, 0, 0, 1)
            if isinstance(got_, list):
                got_.clear()
            env.get_agents_at(x_pos=0, leeway=0)
            lst_ = env.get_agents()
            if isinstance(lst_, list):
                lst_.reverse()
            env.get_random_agent()
            labels.add("other-services-used")
        else:
            raise InvalidCase(op)
        if decoy is not None and dext[0] > 0:
            denv.move(dagent, 1, 0, 0)
            decoy[0] = (decoy[0] + 1) % dext[0] if dwrap else min(decoy[0] + 1, dext[0] - doff)
            dgot = dagent[PositionComponent].x
            if Fraction(dgot) != decoy[0]:
                raise Violation("other-world-disturbed", f"{where}: an agent walking along x in a second world (extent {dext[0]}, wrap={dwrap}) "
                                                         f"stands at {dgot}, expected {decoy[0]}")
        check_all(where)
    if decoy is not None:
        labels.add("second-world-alive")
    if as_np:
        labels.add("numpy-scalars")
    if arr0:
        labels.add("numpy-0d-arrays-shared")
    labels.add(f"call-{style}")
    labels.update([kind, "wrap" if wrap else "clamp", "exact" if exact else "float"])
    if any(e == 0 for e in ext):
        labels.add("zero-extent-axis")
    return {"nontrivial": nontrivial, "labels": sorted(labels)}


def strategy(tier):
    @st.composite
    def case(draw):
        kind = draw(st.sampled_from(["space", "space", "discrete", "grid", "line"]))
        wrap = draw(st.booleans())
        exact = kind != "space" or draw(st.integers(0, 3)) > 0
        if kind == "space":
            if exact:
                ext = [draw(st.sampled_from([0, 8, 12, 40, 64, 100, 512])) for _ in range(3)]
            else:
                ext = [draw(wone_of(st.just(0.0), st.floats(1.0, 1000.0, allow_nan=False), st.sampled_from([7.3, 10.1, 12.6, 99.9, 1.1]))) for _ in range(3)]
        elif kind == "discrete":
            ext = [draw(st.sampled_from([0, 1, 2, 3, 5, 7, 50])) for _ in range(3)]
        elif kind == "grid":
            ext = [draw(st.integers(1, 7)), draw(st.integers(1, 7)), 0]
        else:
            ext = [draw(st.integers(1, 9)), 0, 0]
        if all(e == 0 for e in ext) and draw(st.integers(0, 3)) > 0:
            ext[draw(st.integers(0, 2))] = 5 if kind != "space" else (40 if exact else 5.0)
        if kind == "line":
            ext = [ext[0] or 3, 0, 0]
        unit = 8 if (kind == "space" and exact) else 1
        ee = [(e if (kind != "space" or not exact) else e // 8) for e in ext]     # extents in world units

        def coord(ax):
            if kind == "space" and not exact:
                inside = st.floats(0.0, float(ee[ax]) or 1.0)
                return draw(wone_of(inside, inside, inside, inside, st.floats(-5.0, float(ee[ax]) + 5.0),
                                      st.sampled_from([0.0, float(ee[ax])])))
            e = int(ee[ax]) * unit
            top = max(e - (0 if kind == "space" else unit), 0)
            inside = st.integers(0, top)
            edge = st.sampled_from([0, top, top, max(top - unit, 0)])
            return draw(wone_of(inside, inside, inside, inside, edge, edge,
                                  st.sampled_from([top + 1, -1, top + unit, -unit]), st.integers(-2 * unit, e + 2 * unit)))

        def delta(ax):
            if kind == "space" and not exact:
                return draw(wone_of(st.floats(-3.0, 3.0), st.floats(-1e12, 1e12, allow_nan=False), st.sampled_from([0.0, 1e9, -1e9])))
            e = int(ee[ax]) * unit
            small = st.integers(-3 * unit, 3 * unit)
            special = st.sampled_from([0, e, -e, 3 * e + unit, -(3 * e + unit), e - 1, 1 - e, 10 ** 9 * unit, -10 ** 9 * unit, 2 * e, -2 * e])
            return draw(wone_of(small, small, special, special, st.just(0)))
        a = st.integers(0, 3)
        ops = []
        n = draw(wone_of(st.integers(1, 30), st.integers(1, 30), st.integers(1, 30), st.integers(1, 30), st.integers(60, 160)))
        for _ in range(n):
            kind_op = draw(st.sampled_from(["add", "add", "move", "move", "move", "move", "move_to", "move_to", "remove", "use"]))
            if kind_op == "use":
                ops.append({"op": "use"})
            elif kind_op == "add":
                ops.append({"op": "add", "a": draw(a), "pos": [coord(0), coord(1), coord(2)]})
            elif kind_op == "move":
                ops.append({"op": "move", "a": draw(a), "d": [delta(0), delta(1), delta(2)]})
            elif kind_op == "move_to":
                ops.append({"op": "move_to", "a": draw(a), "pos": [coord(0), coord(1), coord(2)]})
            else:
                ops.append({"op": "remove", "a": draw(a)})
        return {"kind": kind, "ext": ext, "wrap": wrap, "num": "exact" if exact else "float", "ops": ops, "decoy": draw(st.integers(0, 3)) == 0, "np": draw(st.integers(0, 4)) == 0, "call": draw(st.sampled_from(["pos", "pos", "kw", "short", "alias"])), "arr0": draw(st.integers(0, 7)) == 0}
    return with_done(case())


EXHAUSTIVE_DOMAIN = ("one agent, one move: every (kind, extent, wrap, start, delta) with kind in {line, grid (extent x 2), discrete "
                     "(1 x extent x 2 and 0 x extent x 0), continuous space (eighths, extents 1 and 3/2)}, grid extents 1..4, every start "
                     "cell / every eighth incl. the far edge, delta in -(2*extent+1)..(2*extent+1) on the populated axis (thorough: "
                     "additionally a second agent-independent axis delta and move_to to every target in -1..extent+1)")


def exhaustive(tier):
    for wrap in (False, True):
        for e in (1, 2, 3, 4):
            shapes = [("line", [e, 0, 0], 0), ("grid", [e, 2, 0], 0), ("discrete", [1, e, 2], 1), ("discrete", [0, e, 0], 1)]
            for kind, ext, ax in shapes:
                for start in range(e):
                    pos = [0, 0, 0]
                    pos[ax] = start
                    for delta in range(-(2 * e + 1), 2 * e + 2):
                        d = [0, 0, 0]
                        d[ax] = delta
                        yield {"kind": kind, "ext": ext, "wrap": wrap, "num": "exact",
                               "ops": [{"op": "add", "a": 0, "pos": pos}, {"op": "move", "a": 0, "d": d}]}
                    if tier != "quick":
                        for target in range(-1, e + 2):
                            t = [0, 0, 0]
                            t[ax] = target
                            yield {"kind": kind, "ext": ext, "wrap": wrap, "num": "exact",
                                   "ops": [{"op": "add", "a": 0, "pos": pos}, {"op": "move_to", "a": 0, "pos": t}]}
        for e8 in (8, 12):                                   # continuous, in eighths
            for ext, ax in (([e8, 0, 0], 0), ([0, 16, e8], 2)):
                for start in range(0, e8 + 1):
                    pos = [0, 0, 0]
                    pos[ax] = start
                    step = 1 if tier != "quick" else 3
                    for delta in list(range(-(2 * e8 + 1), 2 * e8 + 2, step)) + [0, e8, -e8]:
                        d = [0, 0, 0]
                        d[ax] = delta
                        yield {"kind": "space", "ext": ext, "wrap": wrap, "num": "exact",
                               "ops": [{"op": "add", "a": 0, "pos": pos}, {"op": "move", "a": 0, "d": d}]}
