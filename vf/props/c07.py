"""C07 - same seed, same trajectory - independent of global state and other models."""
import hashlib
import json
import os
import random
import subprocess
import sys

import numpy

from ECAgent.Core import Agent, Component, Environment, Model, System
from ECAgent.Collectors import AgentCollector, Collector
from ECAgent.Environments import GridWorld, SpaceWorld, PositionComponent
from ECAgent.Batching import batch_run
from vf.fixtures import wone_of
from vf.engine import Violation, InvalidCase, quiesce

PROPERTY = "C07"
CASE_TIMEOUT_S = 40
BUDGET = {"quick": 700, "thorough": 2100}
RULE = ("A scripted stochastic model (world plain / GridWorld / continuous SpaceWorld, wrap on/off; population 3-12 with mixed "
        "components and tags; system mix from {mover using model.random, picker via get_random_agent with/without template/tag/both, "
        "shuffler via shuffle with/without template/tag/both, birth/death driven by model.random}; an AgentCollector; 5-15 timesteps) is run with a generated "
        "seed (0, negative, > 2^64, ...) and its FULL trace (system executions, picks, shuffle orders, positions, component "
        "values, collector records) is hashed. Metamorphic oracle: the digest of an undisturbed run must equal the digest under "
        "(a) a top-priority perturber that reseeds/consumes random and numpy.random with generated values before and between "
        "steps, (b) other models built and stepped between the steps, (d) the same model run as a batch worker through "
        "batch_run(processes=1..3) returning its trace as collector records; 'hashseed' cases (c) evaluate a batch of 8 "
        "configurations in fresh interpreters with PYTHONHASHSEED in {1, 4242, generated} and compare all digests. "
        "Non-trivial (also the vacuity guard): the trace contains a pick among >= 2 candidates and a shuffle of >= 3 agents "
        "AND the digest differs from the digest under seed+1. Distinct = digest of the case."
        " Added in rounds 19-24: grid models may contain a random walker that shuffles and sorts the neighbour lists it is handed; models may be built without a seed and seeded afterwards through model.random.seed(s), with unseeded models drawing in between.")
ASSUMPTIONS = ["ambient perturbations are sampled, not enumerated; sources of nondeterminism the harness does not perturb (locale, "
               "environment variables, thread timing - ECAgent uses none) are not covered"]


class Val(Component):
    def __init__(self, agent, model, v):
        super().__init__(agent, model)
        self.v = v


class Mark(Component):
    pass


def _val(agent):
    c = agent[Val]
    return None if c is None else c.v


class Mover(System):
    def execute(self):
        m = self.model
        for a in list(m.environment):
            dx, dy = m.random.randint(-2, 2), m.random.randint(-2, 2)
            m.environment.move(a, dx, dy)
            m.trace.append(("pos", a.id, a[PositionComponent].xyz()))


class Wanderer(System):
    """grid worlds: every agent asks for its neighbouring cells, shuffles the list it was handed (with the model's generator) and
    steps onto the first one - the usual random walk on a lattice"""
    def execute(self):
        m = self.model
        env = m.environment
        if not isinstance(env, GridWorld):
            return
        for a in list(env)[:6]:
            pc = a[PositionComponent]
            here = (int(pc.x), int(pc.y), 0)
            cells = env.get_moore_neighbours(here, 1, False, tuple) if len(m.trace) % 2 else env.get_neumann_neighbours(here, 1, True, tuple)
            m.random.shuffle(cells)
            cells.sort(key=lambda c: (c[0] + c[1]) % 2)        # ... and orders it by a criterion of its own (stable: ties keep the shuffled order)
            env.move_to(a, cells[0][0], cells[0][1])
            m.trace.append(("walk", a.id, tuple(cells[0])))


class Picker(System):
    def __init__(self, id, model, mode, **kw):
        super().__init__(id, model, **kw)
        self.mode = mode

    def execute(self):
        m = self.model
        env = m.environment
        if self.mode == "any":
            cands = env.get_agents()
            a = env.get_random_agent()
        elif self.mode == "template":
            cands = env.get_agents(Val)
            a = env.get_random_agent(Val)
        elif self.mode == "both":
            cands = env.get_agents(Val, tag=1)
            a = env.get_random_agent(Val, tag=1)
        else:
            cands = env.get_agents(tag=1)
            a = env.get_random_agent(tag=1)
        m.trace.append(("pick", self.mode, None if a is None else a.id, len(cands)))
        if a is not None and a[Val] is not None:
            a[Val].v += m.random.randint(0, 5)


class Shuffler(System):
    def __init__(self, id, model, mode="plain", **kw):
        super().__init__(id, model, **kw)
        self.mode = mode

    def execute(self):
        env = self.model.environment
        if self.mode == "template":
            order = env.shuffle(Val)
        elif self.mode == "both":
            order = env.shuffle(Val, tag=1)
        elif self.mode == "tag":
            order = env.shuffle(tag=2)
        else:
            order = env.shuffle()
        self.model.trace.append(("shuffle", tuple(a.id for a in order)))


class BirthDeath(System):
    def execute(self):
        m = self.model
        env = m.environment
        if m.random.random() < 0.3 and len(env) > 2:
            a = env.get_random_agent()
            env.remove_agent(a.id)
            m.trace.append(("death", a.id))
        if m.random.random() < 0.4 and len(env) < max(14, int(getattr(m, "pop_cap", 14))):
            m.births += 1
            a = Agent(f"n{m.births}", m, tag=m.random.choice([0, 1, 2]))
            if m.random.random() < 0.7:
                a.add_component(Val(a, m, m.random.randint(0, 9)))
            _place(m, a)
            m.trace.append(("birth", a.id))


def _place(m, a):
    env = m.environment
    if isinstance(env, GridWorld):
        env.add_agent(a, m.random.randrange(env.width), m.random.randrange(env.height))
    elif isinstance(env, SpaceWorld):
        env.add_agent(a, m.random.random() * env.width, m.random.random() * env.height)
    else:
        env.add_agent(a)


class Completer(System):
    """completes the model at a given timestep and keeps using the environment's random services afterwards"""

    def __init__(self, model, at):
        super().__init__("completer", model, priority=-3)
        self.at = at

    def execute(self):
        m = self.model
        if m.systems.timestep == self.at:
            m.complete()
            a = m.environment.get_random_agent()
            m.trace.append(("pick-after-complete", None if a is None else a.id, len(m.environment)))
            m.trace.append(("shuffle-after-complete", tuple(x.id for x in m.environment.shuffle())))


class Tracer(System):
    def execute(self):
        self.model.trace.append(("t", self.model.systems.timestep, tuple(a.id for a in self.model.environment)))


class Perturber(System):
    def __init__(self, model, values):
        super().__init__("perturber", model, priority=1000)
        self.values = values

    def execute(self):
        v = self.values[self.model.systems.timestep % len(self.values)]
        random.seed(v)
        random.random()
        numpy.random.seed(abs(v) % (2 ** 32))
        numpy.random.rand()


class TraceCollector(Collector):
    """records IS the model's trace (used to get the trace out of a batch worker)"""

    def __init__(self, model):
        super().__init__("trace", model, priority=-5)
        self.records = model.trace


DONORS = [0]


class TrajModel(Model):
    def __init__(self, seed, cfg, perturb=None):
        if isinstance(cfg, str):
            cfg = json.loads(cfg)
        if cfg.get("seed_after"):
            # the model is built without a seed and its generator seeded afterwards through the random.Random protocol
            # (model.random.seed(s)): from then on the trajectory is a function of s
            super().__init__()
            self.random.seed(seed)
        else:
            super().__init__(seed=seed)
        self.trace = [("seed", str(seed))]
        self.births = 0
        world = cfg.get("world", "plain")
        owner = self
        if cfg.get("donor_world"):
            # the world is prepared by ANOTHER model (different seed every time, some draws already taken) and then handed
            # over with the documented set_model() + set_environment(): from then on it must draw from THIS model's generator
            DONORS[0] += 1
            owner = Model(seed=7919 * DONORS[0] + 13)
            for _ in range(DONORS[0] % 5):
                owner.random.random()
        if world == "grid":
            env = GridWorld(owner, 6, 4, wrap_env=bool(cfg.get("wrap")))
        elif world == "space":
            env = SpaceWorld(owner, 9.5, 7.25, wrap_env=bool(cfg.get("wrap")))
        else:
            env = Environment(owner) if owner is not self else None
        if env is not None:
            if owner is not self:
                owner.environment.get_random_agent()
                env.set_model(self)
            self.set_environment(env)
        for i in range(max(3, min(int(cfg.get("pop", 5)), 12000))):
            a = Agent(f"a{i}", self, tag=i % 3)
            if i % 4 != 3:
                a.add_component(Val(a, self, i))
            if i % 2:
                a.add_component(Mark(a, self))
            _place(self, a)
        kinds = cfg.get("systems") or ["picker"]
        self.systems.add_system(Tracer("tracer", self, priority=50))
        for k, kind in enumerate(kinds[:6]):
            sid = f"{kind}{k}"
            if kind == "wanderer":
                self.systems.add_system(Wanderer(sid, self, priority=10 - k))
            elif kind == "mover":
                if world != "plain":
                    self.systems.add_system(Mover(sid, self, priority=10 - k))
            elif kind in ("picker", "picker_t", "picker_tag", "picker_both"):
                self.systems.add_system(Picker(sid, self, {"picker": "any", "picker_t": "template", "picker_tag": "tag",
                                                           "picker_both": "both"}[kind], priority=10 - k))
            elif kind in ("shuffler", "shuffler_t", "shuffler_tag", "shuffler_both"):
                self.systems.add_system(Shuffler(sid, self, {"shuffler": "plain", "shuffler_t": "template", "shuffler_tag": "tag",
                                                             "shuffler_both": "both"}[kind], priority=10 - k))
            elif kind == "birthdeath":
                self.systems.add_system(BirthDeath(sid, self, priority=10 - k))
        if cfg.get("complete_at") is not None:
            self.systems.add_system(Completer(self, int(cfg["complete_at"])))
        self.systems.add_system(AgentCollector(self, _val, includeTimstep=True))
        self.systems.add_system(TraceCollector(self))
        if perturb:
            self.systems.add_system(Perturber(self, perturb))

    def final_trace(self):
        # the environment's random services are used once more after the run (also on a completed model)
        post = []
        for _ in range(3):
            a = self.environment.get_random_agent()
            post.append(None if a is None else a.id)
        post.append(tuple(x.id for x in self.environment.shuffle()))
        return list(self.trace) + [("post", tuple(post)),
                                   ("records", json.dumps(self.systems["AgentCollector"].records, sort_keys=True, default=str))]


def run_plain(seed, cfg, steps, perturb=None, interleave=None):
    if perturb:
        random.seed(perturb[0])
        numpy.random.seed(abs(perturb[0]) % (2 ** 32))
    m = TrajModel(seed, cfg, perturb=perturb)
    others = []
    for t in range(steps):
        if perturb:
            random.seed(perturb[t % len(perturb)] + 1)
            random.getrandbits(64)
            numpy.random.rand(3)
        if interleave:
            o = TrajModel(interleave[t % len(interleave)], cfg)
            others.append(o)
            u = Model()                 # ... and an unseeded model that draws from its own generator
            u.random.random()
            u.random.shuffle([1, 2, 3])
            for x in others[-3:]:
                x.execute()
                x.environment.shuffle()
                x.environment.get_random_agent()
        m.execute()
    return m.final_trace()


def digest_of(trace):
    return hashlib.sha256(repr(trace).encode()).hexdigest()


def norm_cfg(cfg):
    steps = max(1, min(int(cfg.get("steps", 6)), 15))
    return steps


def run_case(case):
    try:
        return _run_case(case)
    finally:
        quiesce()


def _run_case(case):
    if case.get("kind") == "hashseed":
        return run_hashseed(case)
    cfg = case["cfg"]
    seed = int(case["seed"])
    steps = norm_cfg(cfg)
    ref = run_plain(seed, cfg, steps)
    again = run_plain(seed, cfg, steps)
    if ref != again:
        raise Violation("same-seed-differs", _diff("two undisturbed runs with the same seed", ref, again, cfg, seed))
    labels = {cfg.get("world", "plain")}
    if cfg.get("donor_world"):
        labels.add("world-prepared-by-another-model")
    if int(cfg.get("pop", 5)) > 64:
        labels.add("population>64")
    if int(cfg.get("pop", 5)) > 10000:
        labels.add("population>10000")
    pv = [int(v) for v in case.get("perturb") or [1]]
    a = run_plain(seed, cfg, steps, perturb=pv)
    if [e for e in a] != ref:
        raise Violation("depends-on-global-rng", _diff("run with global random / numpy.random reseeded and consumed", ref, a, cfg, seed))
    labels.add("perturb-global-rng")
    iv = [int(v) for v in case.get("interleave") or []]
    if iv:
        b = run_plain(seed, cfg, steps, interleave=iv)
        if b != ref:
            raise Violation("depends-on-other-models", _diff("run interleaved with other models being built and stepped", ref, b, cfg, seed))
        labels.add("interleaved-models")
    procs = int(case.get("batch", 0))
    if procs:
        random.seed(pv[0])
        res = batch_run(TrajModel, {"seed": [seed, seed + 1], "cfg": json.dumps(cfg)}, collectors=["trace", "AgentCollector"],
                        processes=procs, max_timesteps=steps)
        mine = [r for r in res if r["trace"] and tuple(r["trace"][0]) == ("seed", str(seed))]
        if len(mine) != 1:
            raise Violation("batch-result-missing", f"batch_run returned {len(res)} results, {len(mine)} for seed {seed}")
        got = [tuple(_tupled(e)) for e in mine[0]["trace"]] + [("records", json.dumps(mine[0]["AgentCollector"], sort_keys=True, default=str))]
        if got != [tuple(_tupled(e)) for e in ref if e[0] != "post"]:
            raise Violation("depends-on-process", _diff(f"run as a batch worker (processes={procs})", ref, got, cfg, seed))
        labels.add(f"batch-p{procs}")
    other = run_plain(seed + 1, cfg, steps)
    picks = any(e[0] == "pick" and e[3] >= 2 for e in ref)
    shuf = any(e[0] == "shuffle" and len(e[1]) >= 3 for e in ref)
    differs = [e for e in other[1:]] != [e for e in ref[1:]]
    return {"nontrivial": picks and shuf and differs, "labels": sorted(labels)}


def _tupled(e):
    return tuple(_tupled(x) for x in e) if isinstance(e, (list, tuple)) else e


def _diff(what, ref, got, cfg, seed):
    n = next((i for i, (x, y) in enumerate(zip(ref, got)) if x != y), min(len(ref), len(got)))
    return (f"{what}: trace diverges at event {n}: reference {ref[n:n + 2]}, got {got[n:n + 2]} (seed {seed}, config {cfg})")


class LabelSeed(str):
    """a seed that is a str subclass (e.g. a label type / a str-valued Enum member)"""


def digests_for(configs):
    out = []
    for c in configs:
        seed = c["seed"]
        if isinstance(seed, str) and seed.startswith("label:"):
            seed = LabelSeed(seed[6:])
        if isinstance(seed, str):
            # beyond the documented type (int) but accepted by random.Random deterministically; if a tree rejects such seeds
            # that is not a reproducibility violation, so the rejection itself is the (stable) outcome
            try:
                out.append(digest_of(run_plain(seed, c["cfg"], norm_cfg(c["cfg"]))))
            except (TypeError, ValueError) as e:
                out.append("rejected:" + type(e).__name__)
        else:
            out.append(digest_of(run_plain(int(seed), c["cfg"], norm_cfg(c["cfg"]))))
    return out


def run_hashseed(case):
    configs = case["configs"][:12]
    ref = digests_for(configs)
    for hs in case.get("hashseeds", [1])[:4]:
        env = dict(os.environ, PYTHONHASHSEED=str(int(hs) % 4294967296), OMP_NUM_THREADS="1", OPENBLAS_NUM_THREADS="1")
        r = subprocess.run([sys.executable, "-m", "vf.workers.c07_digest"], input=json.dumps(configs), capture_output=True, text=True,
                           env=env, timeout=300)
        try:
            got = json.loads(r.stdout.strip().splitlines()[-1])
        except Exception:
            raise Violation("worker-crash", f"fresh interpreter with PYTHONHASHSEED={hs} died: rc={r.returncode} {r.stderr[-500:]}")
        for i, (x, y) in enumerate(zip(ref, got)):
            if x != y:
                raise Violation("depends-on-hash-seed-or-interpreter", f"configuration {configs[i]}: digest {y[:12]} in a fresh interpreter with "
                                                                       f"PYTHONHASHSEED={hs}, {x[:12]} in this process")
    return {"nontrivial": True, "labels": ["hashseed-batch"]}


def strategy(tier):
    from hypothesis import strategies as st
    seeds = wone_of(st.sampled_from([0, 1, -1, 2 ** 64 + 3, -2 ** 70, 2 ** 64, 2 ** 100 + 7]), st.integers(-10 ** 6, 10 ** 6), st.integers(-2 ** 80, 2 ** 80))
    kinds = st.lists(st.sampled_from(["mover", "wanderer", "picker", "picker", "picker_t", "picker_tag", "picker_both", "shuffler", "shuffler",
                                      "shuffler_t", "shuffler_tag", "shuffler_both", "birthdeath"]), min_size=1, max_size=5)
    cfg = st.fixed_dictionaries({"world": st.sampled_from(["plain", "grid", "space"]), "wrap": st.booleans(), "pop": st.integers(3, 12),
                                 "systems": kinds, "steps": st.integers(5, 15),
                                 "donor_world": st.sampled_from([False, False, False, False, True]), "seed_after": st.sampled_from([False, False, False, True]),
                                 "complete_at": st.sampled_from([None, None, None, 2, 4, 7])})
    from vf.fixtures import near_pow2
    crowd = st.fixed_dictionaries({"world": st.sampled_from(["plain", "grid", "space"]), "wrap": st.booleans(), "pop": near_pow2(33, 130),
                                   "systems": kinds.map(lambda k: ["picker", "shuffler"] + k[:2]), "steps": st.integers(3, 6),
                                   "complete_at": st.sampled_from([None, None, 2])})
    cfg = wone_of(*([cfg] * 11 + [crowd]))
    single = st.fixed_dictionaries({"kind": st.just("single"), "seed": seeds, "cfg": cfg,
                                    "perturb": st.lists(st.integers(-10 ** 9, 10 ** 9), min_size=1, max_size=4),
                                    "interleave": st.lists(seeds, max_size=3),
                                    "batch": st.sampled_from([0, 0, 0, 0, 1, 2, 3])})
    big = st.sampled_from([2 ** 64 + 3, -2 ** 70, 2 ** 64, -2 ** 64, 2 ** 200 + 1, 10 ** 30])
    rich = st.fixed_dictionaries({"world": st.sampled_from(["plain", "grid", "space"]), "wrap": st.booleans(), "pop": st.integers(4, 12),
                                  "systems": kinds.map(lambda k: ["picker", "shuffler", "shuffler_both", "picker_both"] + k[:2]), "steps": st.integers(5, 12),
                                  "complete_at": st.sampled_from([None, None, 3])})
    one = wone_of(st.fixed_dictionaries({"seed": seeds, "cfg": cfg}), st.fixed_dictionaries({"seed": big, "cfg": rich}),
                  st.fixed_dictionaries({"seed": st.sampled_from(["experiment-A", "", "run 7", "\u00e9", "label:experiment-B", "label:x"]), "cfg": rich}),
                  st.fixed_dictionaries({"seed": seeds, "cfg": rich}))
    # every batch holds a str-subclass seed, a plain str seed and a seed beyond 2**64 with a randomness-rich configuration
    label_one = st.fixed_dictionaries({"seed": st.sampled_from(["label:experiment-B", "label:x"]), "cfg": rich})
    str_one = st.fixed_dictionaries({"seed": st.sampled_from(["experiment-A", "", "run 7", "\u00e9"]), "cfg": rich})
    big_one = st.fixed_dictionaries({"seed": big, "cfg": rich})
    batch = st.tuples(st.lists(one, min_size=5, max_size=5), label_one, str_one, big_one).map(lambda t: t[0] + [t[1], t[2], t[3]])
    hashs = st.fixed_dictionaries({"kind": st.just("hashseed"), "configs": batch,
                                   "hashseeds": st.lists(wone_of(st.sampled_from([1, 4242]), st.integers(2, 2 ** 32 - 1)), min_size=2, max_size=3)})
    # a population beyond 10 000 agents (a vectorised fast path for very large shuffles / picks must still use the model's generator)
    huge = st.fixed_dictionaries({"kind": st.just("single"), "seed": seeds,
                                  "cfg": st.fixed_dictionaries({"world": st.sampled_from(["plain", "grid"]), "wrap": st.just(False), "pop": st.sampled_from([10100, 11000]),
                                                                "systems": st.sampled_from([["shuffler", "picker"], ["shuffler_t", "picker_tag", "shuffler"]]),
                                                                "steps": st.just(2), "complete_at": st.none()}),
                                  "perturb": st.lists(st.integers(-10 ** 9, 10 ** 9), min_size=1, max_size=2), "interleave": st.just([]), "batch": st.just(0)})
    return st.integers(1, 400).flatmap(lambda k: hashs if k % 50 == 0 else (huge if k == 77 else single))
