"""C10 - neighbourhood queries return exactly the metric ball clipped to the grid."""
import itertools
import math

import numpy as np

from hypothesis import strategies as st

from ECAgent.Core import Model
from ECAgent.Environments import DiscreteWorld, GridWorld, LineWorld, PositionComponent
from vf.engine import Violation, InvalidCase
from vf.fixtures import check, expect_raises, with_done, wone_of

PROPERTY = "C10"
BUDGET = {"quick": 1500, "thorough": 4500}
RULE = ("One case = (grid shape, centre cell, radius); for it all 2 neighbourhood kinds x incl_center x ret_type "
        "{int,tuple} x centre representation {cell id, tuple, PositionComponent exact, PositionComponent with fractional "
        "in-cell offsets, a PositionComponent object re-used after moving from another cell, a namedtuple, an IntEnum id, a PositionComponent subclass, a tuple of numpy integers, a PositionComponent holding numpy floats (radius then a numpy integer)} x entry point / call convention {specific method with positional arguments, get_neighbours(mode=) with keywords, specific method with only the non-default arguments by keyword} are queried (192 calls) and compared with a "
        "brute-force scan of all cells by Chebyshev/Manhattan distance in ascending cell order; the id form must be "
        "the row indices of the same cells in the world's position table. Also unknown mode -> KeyError, unknown "
        "ret_type / centre type -> TypeError. Non-trivial: ball clipped by a border, or radius >= 2, or non-cubic shape. "
        "Distinct = digest of (shape, centre, radius)."
        " Added in rounds 19-24: the model may be marked complete; incl_center as numpy boolean and as the integers 1 / 0; radii at and beyond the 64-bit limits for Python-number centres.")
EXHAUSTIVE_DOMAIN = ("shapes {0..3}^3 (thorough {0..4}^3) as DiscreteWorld plus LineWorld(1..4)/GridWorld(1..4 x 1..4) x every "
                     "centre cell x radius 0..max extent+2; plus a diameter sweep on 4x4x4, 5x4x5, 4x5x6, 5x5x0 (thorough also 5x5x5, 6x6x6): corner / edge / middle "
                     "centres x every radius from the largest extent - 1 to the Manhattan diameter")
ASSUMPTIONS = ["non-wrapping grid worlds only (the property's scope)", "radius is a non-negative int",
               "the world's position table is the reference for cell ids (its consistency with the id formula is C09)"]

import collections
import enum

Point = collections.namedtuple("Point", "x y z")


class VelocityLike(PositionComponent):
    """a user subclass of PositionComponent"""


_worlds = {}


def world_for(kind, w, h, d, done=False):
    key = (kind, w, h, d, done)
    if key not in _worlds:
        if len(_worlds) > 64:
            _worlds.clear()
        m = Model()
        if kind == "line":
            env = LineWorld(m, w)
        elif kind == "grid":
            env = GridWorld(m, w, h)
        else:
            env = DiscreteWorld(m, w, h, d)
        table = [tuple(p) for p in env.cells["pos"]]
        if done:       # the model was marked complete: its grid keeps answering
            m.complete()
        _worlds[key] = (env, m, table, {p: i for i, p in enumerate(table)})
    return _worlds[key]


def run_case(case):
    kind = case.get("kind", "discrete")
    w, h, d = int(case["w"]), int(case.get("h", 0)), int(case.get("d", 0))
    if min(w, h, d) < 0 or (kind == "line" and (w < 1 or h or d)) or (kind == "grid" and (w < 1 or h < 1 or d)):
        raise InvalidCase("shape")
    ew, eh, ed = max(w, 1), max(h, 1), max(d, 1)
    cx, cy, cz = (int(v) for v in case["c"])
    cx, cy, cz = cx % ew, cy % eh, cz % ed
    r = abs(int(case["r"]))
    env, model, table, index = world_for(kind, w, h, d, case.get("done") is not None)
    check(len(table) == ew * eh * ed and len(index) == len(table), "position-table", f"{case}: table has {len(table)} rows")
    cells = [(x, y, z) for z in range(ed) for y in range(eh) for x in range(ew)]
    centre = (cx, cy, cz)
    # in-cell offsets: eighths, and offsets a hair below the next cell (int() truncation is the documented conversion)
    NEAR_ONE = (1 - 2.0 ** -40, 0.9999999999, 1 - 2.0 ** -53, 0.999999)
    fx, fy, fz = [((int(v) % 12) / 8.0 if int(v) % 12 < 8 else NEAR_ONE[int(v) % 12 - 8]) for v in case.get("frac", (3, 5, 7))]
    reprs = {
        "id": index[centre],
        "tuple": centre,
        "pos": PositionComponent(None, model, cx, cy, cz),
        "posfrac": PositionComponent(None, model, *[(c + f if c + f < c + 1 else math.nextafter(c + 1, 0)) for c, f in ((cx, fx), (cy, fy), (cz, fz))]),
    }
    # a component object that is queried at ANOTHER cell first and then moves to the centre (agents move, their
    # PositionComponent object stays the same): the answer must follow the component's current value
    prev = ((cx + 1) % ew, (cy + 1) % eh, (cz + 1) % ed)
    moving = PositionComponent(None, model, *prev)
    reprs["moved"] = moving
    reprs["namedtuple"] = Point(cx, cy, cz)                                   # a tuple subclass
    reprs["intenum"] = enum.IntEnum("Cell", {"HERE": index[centre]}).HERE     # an int subclass
    reprs["pos-subclass"] = VelocityLike(None, model, cx, cy, cz)
    # numpy numbers (coordinates read back from the cell table or computed with numpy): a tuple of numpy integers, a component
    # holding numpy floats; the radius is then a numpy integer too
    reprs["np-tuple"] = tuple(np.int64(v) for v in centre)
    reprs["pos-np"] = PositionComponent(None, model, np.float64(cx + 0.5), np.float32(cy + 0.25), np.float64(cz))
    clipped = False
    for mode in ("moore", "neumann"):
        if mode == "moore":
            ball = [c for c in cells if max(abs(c[0] - cx), abs(c[1] - cy), abs(c[2] - cz)) <= r]
            full = 1
            for e, dim in ((ew, w), (eh, h), (ed, d)):
                full *= (2 * r + 1) if dim > 0 else 1
            clipped = clipped or len(ball) < full
        else:
            ball = [c for c in cells if abs(c[0] - cx) + abs(c[1] - cy) + abs(c[2] - cz) <= r]
        for incl in (False, True):
            exp_t = [c for c in ball if incl or c != centre]
            exp_i = [index[c] for c in exp_t]
            for rname, rep in reprs.items():
                if r >= 2 ** 31 and rname in ("np-tuple", "pos-np"):
                    continue        # numpy-typed centres are limited to numpy's own integer range (centre + radius beyond 2**63 overflows in numpy scalar arithmetic): not generated
                for entry in ("specific", "generic") + (("kw-minimal", "kw-one") if rname in ("tuple", "id") else ()):
                    for ret, exp in ((tuple, exp_t), (int, exp_i)):
                        if rname == "moved":
                            moving.x, moving.y, moving.z = prev
                            if entry == "specific":
                                (env.get_moore_neighbours if mode == "moore" else env.get_neumann_neighbours)(moving, r, incl, ret)
                            else:
                                env.get_neighbours(moving, radius=r, incl_center=incl, ret_type=ret, mode=mode)
                            moving.x, moving.y, moving.z = centre
                        r_arg = np.int64(r) if rname in ("np-tuple", "pos-np") and r < 2 ** 31 else r
                        # the flag as the flags of other libraries arrive: a numpy boolean, the integers 1 / 0
                        incl_arg = np.bool_(incl) if rname in ("np-tuple", "pos-np") else (int(incl) if rname == "pos" else incl)
                        if entry == "specific":
                            fn = env.get_moore_neighbours if mode == "moore" else env.get_neumann_neighbours
                            got = fn(rep, r_arg, incl_arg, ret)
                        elif entry in ("kw-minimal", "kw-one"):
                            # other call conventions: only the arguments that differ from the documented defaults, by keyword
                            # (kw-one: the radius is always spelt out, and comes last)
                            fn = env.get_moore_neighbours if mode == "moore" else env.get_neumann_neighbours
                            kw = {}
                            if incl:
                                kw["incl_center"] = True
                            if ret is not int:
                                kw["ret_type"] = ret
                            if r != 1 or entry == "kw-one":
                                kw["radius"] = r
                            got = fn(rep, **kw)
                        else:
                            got = env.get_neighbours(rep, radius=r_arg, incl_center=incl_arg, ret_type=ret, mode=mode)
                        if not isinstance(got, list) or [tuple(g) if ret is tuple else g for g in got] != exp:
                            clause = f"{mode}-{'ids' if ret is int else 'tuples'}"
                            raise Violation(clause, f"shape={kind}{(w, h, d)} centre={centre} given as {rname} r={r} incl={incl} "
                                                    f"entry={entry}: got {got}, expected {exp}")
                        if rname in ("id", "tuple", "pos") and got:
                            # the caller edits the list it was handed and asks the same question again
                            got.reverse()
                            got.pop()
                            again = (env.get_moore_neighbours if mode == "moore" else env.get_neumann_neighbours)(rep, r, incl, ret)
                            if again is got or [tuple(g) if ret is tuple else g for g in again] != exp:
                                raise Violation("answer-changed-after-caller-edited-the-result",
                                                f"shape={kind}{(w, h, d)} centre={centre} r={r} incl={incl} kind={mode}: after the caller edited the "
                                                f"returned list the same query answered {again}, expected {exp}")
                            got = again
                        if ret is int:
                            back = [table[int(i)] if isinstance(i, (int, np.integer)) and 0 <= i < len(table) else None for i in got]
                            if back != exp_t:
                                raise Violation("id-tuple-mismatch", f"shape={(w, h, d)} centre={centre} r={r}: ids {got} denote {back}, tuples are {exp_t}")
    # defaults: radius 1, no centre, ids
    got = env.get_moore_neighbours(centre)
    exp = [index[c] for c in cells if max(abs(c[0] - cx), abs(c[1] - cy), abs(c[2] - cz)) <= 1 and c != centre]
    check(got == exp, "moore-defaults", f"shape={(w, h, d)} centre={centre}: defaults gave {got}, expected {exp}")
    got = env.get_neumann_neighbours(centre)
    exp = [index[c] for c in cells if abs(c[0] - cx) + abs(c[1] - cy) + abs(c[2] - cz) <= 1 and c != centre]
    check(got == exp, "neumann-defaults", f"shape={(w, h, d)} centre={centre}: defaults gave {got}, expected {exp}")
    got = env.get_neighbours(centre)
    exp = [index[c] for c in cells if max(abs(c[0] - cx), abs(c[1] - cy), abs(c[2] - cz)) <= 1 and c != centre]
    check(got == exp, "generic-defaults", f"shape={(w, h, d)} centre={centre}: defaults gave {got}, expected {exp}")
    expect_raises("unknown-mode-keyerror", KeyError, env.get_neighbours, centre, r, mode="hex")
    expect_raises("unknown-rettype-typeerror", TypeError, env.get_neighbours, centre, r, ret_type=str)
    expect_raises("unknown-rettype-typeerror", TypeError, env.get_neumann_neighbours, centre, r, False, list)
    expect_raises("bad-centre-typeerror", TypeError, env.get_moore_neighbours, [cx, cy, cz], r)
    cubic = len({e for e in (w, h, d) if e > 0}) <= 1
    labels = (["model-completed-then-used"] if case.get("done") is not None else []) + ["clipped" if clipped else "unclipped", "cubic" if cubic else "non-cubic", f"r{min(r, 4)}{'+' if r >= 4 else ''}",
              f"zero-axes-{''.join('0' if e == 0 else 'n' for e in (w, h, d))}"]
    return {"nontrivial": clipped or r >= 2 or not cubic, "labels": labels}


def strategy(tier):
    ext = lambda n: wone_of(st.just(0), st.integers(1, n))

    @st.composite
    def case(draw):
        kind = draw(st.sampled_from(["discrete", "discrete", "discrete", "grid", "line", "big"]))
        if kind == "big":              # blocks of more than 64 / 128 cells, also with zero-extent axes in any position
            kind = "discrete"
            big = st.sampled_from([0, 0, 9, 10, 12, 14])
            w, h, d = draw(big), draw(big), draw(big)
            if max(w, h, d) == 0:
                w = 70
            if sorted((w, h, d))[1] == 0:       # only one populated axis: make it long
                w, h, d = [(75 if e else 0) for e in (w, h, d)]
        elif kind == "line":
            w, h, d = draw(st.integers(1, 30)), 0, 0
        elif kind == "grid":
            w, h, d = draw(st.integers(1, 9)), draw(st.integers(1, 7)), 0
        else:
            w, h, d = draw(ext(9)), draw(ext(7)), draw(ext(5))
        c = [draw(st.integers(0, max(w, 1) - 1)), draw(st.integers(0, max(h, 1) - 1)), draw(st.integers(0, max(d, 1) - 1))]
        r = draw(wone_of(st.integers(0, 3), st.integers(0, 12))) if max(w, h, d) < 60 else draw(st.sampled_from([3, 20, 33, 40, 80]))
        if draw(st.integers(0, 3)) == 0:       # landmark radii: around the Chebyshev diameter, twice it, and the Manhattan diameter
            m_, s_ = max(w, h, d, 1), max(w, 1) + max(h, 1) + max(d, 1)
            r = max(0, draw(st.sampled_from([m_ - 2, m_ - 1, m_, 2 * m_ - 1, 2 * m_, 2 * m_ + 1, s_ - 4, s_ - 3, s_ - 2, s_])))
            if draw(st.booleans()):             # ... seen from a corner
                c = [draw(st.sampled_from([0, max(w, 1) - 1])), draw(st.sampled_from([0, max(h, 1) - 1])), draw(st.sampled_from([0, max(d, 1) - 1]))]
        if draw(st.integers(0, 11)) == 0:      # "everything": radii at and beyond the 64-bit limits
            r = draw(st.sampled_from([2 ** 62, 2 ** 63 - 1, 2 ** 63, 2 ** 64, 2 ** 70, 10 ** 30]))
        frac = [draw(st.integers(0, 11)) for _ in range(3)]
        return {"kind": kind, "w": w, "h": h, "d": d, "c": c, "r": r, "frac": frac}
    return with_done(case())


def _cases(tier):
    n = 3 if tier == "quick" else 4
    shapes = [("discrete", w, h, d) for w, h, d in itertools.product(range(n + 1), repeat=3)]
    shapes += [("line", w, 0, 0) for w in range(1, 5)] + [("grid", w, h, 0) for w in range(1, 5) for h in range(1, 5)]
    for kind, w, h, d in shapes:
        ew, eh, ed = max(w, 1), max(h, 1), max(d, 1)
        for z, y, x in itertools.product(range(ed), range(eh), range(ew)):
            for r in range(0, max(w, h, d) + 3):
                yield {"kind": kind, "w": w, "h": h, "d": d, "c": [x, y, z], "r": r, "frac": [(x + r) % 12, (y + 3) % 12, (z + 5) % 12]}
    # diameter sweep: nearly cubic 3-D (and one 2-D) grids, centres in a corner / on an edge / in the middle, EVERY radius up to the
    # Manhattan diameter (between the Chebyshev and the Manhattan diameter the two kinds of ball differ most)
    for w, h, d in ((4, 4, 4), (5, 4, 5), (4, 5, 6), (5, 5, 0)) + (((5, 5, 5), (6, 6, 6)) if tier != "quick" else ()):
        ew, eh, ed = max(w, 1), max(h, 1), max(d, 1)
        for c in ((0, 0, 0), (ew - 1, eh - 1, ed - 1), (ew - 1, 0, ed // 2), (ew // 2, eh // 2, ed // 2)):
            for r in range(max(w, h, d) - 1, w + h + d + 1):
                yield {"kind": "discrete", "w": w, "h": h, "d": d, "c": list(c), "r": r, "frac": [r % 12, 3, 5]}


def exhaustive(tier):
    return _cases(tier)
