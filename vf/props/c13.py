"""C13 - agent queries are exact filters; random picks stay within the filter."""
from hypothesis import strategies as st

from ECAgent.Core import Agent, Environment, Model
from ECAgent.Environments import GridWorld, PositionComponent
from vf.engine import Violation, InvalidCase
from vf.fixtures import maybe_complete, with_done, CompA, CompB, CompC, CompD, CompF, check, sized_lists, wone_of

PROPERTY = "C13"
BUDGET = {"quick": 4000, "thorough": 12000}
RULE = ("Population histories (add with component subset of {A,B,F} - F has falsy instances - and tag in {0,1,2,7}, remove, "
        "re-tagging a resident agent, a resident agent gaining/losing a component) of <= 8 agents in a plain "
        "environment or a GridWorld, interleaved with queries: template of 0-3 types from {A,B,C,D (nobody has it)} x tag in "
        "{None, 0, 1, 2, 7, 9}; generated model seed. For every query: get_agents == model filter (all listed types, tag equal "
        "when given incl. 0) in joining order and a FRESH list (it is cleared/extended, the next query and the environment are "
        "unaffected); get_random_agent over 60*k draws returns only candidates, every candidate at least once, None iff no "
        "candidate; shuffle returns a permutation of exactly the candidates; iteration order, len and membership unchanged by "
        "all three. Non-trivial: template of >= 2 types and/or a tag (incl. 0) selecting a proper non-empty subset. Distinct = "
        "digest of the case."
        " Added in rounds 19-24: the model may be marked complete; an operation 'use' (loops over the environment left early, len, lookups by id).")
ASSUMPTIONS = ["reachability uses N = 60*k draws: the probability that a fair pick misses one of k <= 8 candidates is < 1e-24, and the "
               "outcome is a deterministic function of the generated model seed"]

class CrowdAgent(Agent):
    """an agent class that defines its own length (like Environment, which is an Agent whose len() is its population)"""

    def __len__(self):
        return 0


TYPES = [CompA, CompB, CompF, CompD]     # CompF instances are falsy; nobody has CompD


def run_case(case):
    model = Model(seed=int(case.get("seed", 0)))
    grid = bool(case.get("grid"))
    if grid:
        model.set_environment(GridWorld(model, 4, 3))
    env = model.environment
    CAP = max(1, min(int(case.get("cap", 8)), 200))            # population limit (large cases cross size thresholds)
    pop = []          # (agent, mask, tag)
    unregistered, stale = {}, {}      # id(agent) -> components attached / detached WITHOUT the explicit scheduler call
    n_created = 0
    nontrivial = False
    labels = set()
    env2 = None
    if len(case["ops"]) % 2:
        # a second model whose environment holds agents with the SAME ids (all component types, tag 7), alive throughout:
        # environments are independent of each other
        model2 = Model(seed=1)
        env2 = model2.environment
        for i in range(4):
            a2 = Agent(f"g{i}", model2, tag=7)
            for t in TYPES[:3]:
                a2.add_component(t(a2, model2))
            env2.add_agent(a2)
        labels.add("second-environment-alive")
    for k, op in enumerate(case["ops"]):
        maybe_complete(case, k, model, labels)
        where = f"after op {k} {op}"
        if op["op"] == "add":
            if len(pop) >= CAP:
                continue
            mask, tag = int(op["mask"]) % 8, op.get("tag")
            akind = op.get("akind", "agent")
            if akind == "nested-env" and not grid:
                a = Environment(model, id=f"g{n_created}")          # environments are agents too; len() == 0 (no members)
                if tag is not None:
                    a.tag = int(tag)
                labels.add("nested-environment-member")
            elif akind == "crowd":
                a = CrowdAgent(f"g{n_created}", model) if tag is None else CrowdAgent(f"g{n_created}", model, tag=int(tag))
                labels.add("own-len-member")
            else:
                a = Agent(f"g{n_created}", model) if tag is None else Agent(f"g{n_created}", model, tag=int(tag))
            n_created += 1
            for i in range(3):
                if mask >> i & 1:
                    a.add_component(TYPES[i](a, model))
            if grid:
                env.add_agent(a, n_created % 4, n_created % 3)
            else:
                env.add_agent(a)
            pop.append((a, mask, 0 if tag is None else int(tag)))
        elif op["op"] == "remove":
            if not pop:
                continue
            ix = int(op["k"]) % len(pop)
            if op.get("raw") and not grid and unregistered.get(id(pop[ix][0])):
                # the agent leaves although the scheduler never saw one of its components (C03's open finding F3: the removal
                # may raise). Whatever happens, the queries must agree with the environment: removed, or still listed in place.
                a = pop[ix][0]
                try:
                    env.remove_agent(a.id)
                except Exception:
                    if [x.id for x in env] != [x.id for x, _, _ in pop]:
                        raise Violation("failed-removal-altered-environment", f"{where}: remove_agent raised, yet the environment now holds "
                                                                              f"{[x.id for x in env]} instead of {[x.id for x, _, _ in pop]}")
                    labels.add("removal-raised-agent-still-listed")
                    # the failed removal may have deregistered some components half-way: bring the scheduler back in line
                    for c in list(a.components.values()):
                        if not any(c is x for x in (model.systems[type(c)] or [])):
                            model.systems.register_component(c)
                    unregistered.pop(id(a), None)
                    for c in stale.pop(id(a), []):
                        if any(c is x for x in (model.systems[type(c)] or [])):
                            model.systems.deregister_component(c)
                    continue
                pop.pop(ix)
                unregistered.pop(id(a), None)
                stale.pop(id(a), None)
                continue
            a, mask_, tag_ = pop.pop(ix)
            for c in unregistered.pop(id(a), []):           # make the scheduler's view consistent again before the agent leaves
                if a[type(c)] is c:
                    model.systems.register_component(c)
            for c in stale.pop(id(a), []):
                model.systems.deregister_component(c)
            env.remove_agent(a.id)
            if op.get("rejoin"):
                # the very same agent object joins again (now last in joining order)
                if grid:
                    env.add_agent(a, (n_created + 1) % 4, n_created % 3)
                else:
                    env.add_agent(a)
                pop.append((a, mask_, tag_))
                labels.add("same-agent-object-joins-again")
        elif op["op"] == "retag":                     # documented: "you can assign it post-initialization: p1.tag = Tags.PREY"
            if not pop:
                continue
            i = int(op["k"]) % len(pop)
            a, mask, _ = pop[i]
            a.tag = int(op["tag"])
            pop[i] = (a, mask, int(op["tag"]))
            labels.add("retagged")
        elif op["op"] == "toggle":                    # a resident agent gains / loses a component (with the explicit scheduler call)
            if not pop:
                continue
            i = int(op["k"]) % len(pop)
            a, mask, tg = pop[i]
            ti = int(op["t"]) % 3
            paired = bool(op.get("paired", True))
            if mask >> ti & 1:
                c = a[TYPES[ti]]
                if any(c is u for u in unregistered.get(id(a), [])):
                    unregistered[id(a)] = [u for u in unregistered[id(a)] if u is not c]
                elif paired:
                    model.systems.deregister_component(c)
                else:
                    stale.setdefault(id(a), []).append(c)
                a.remove_component(TYPES[ti])
            else:
                c = TYPES[ti](a, model)
                a.add_component(c)
                if paired:
                    model.systems.register_component(c)
                else:                          # the agent simply gains a component: queries go by what agents carry
                    unregistered.setdefault(id(a), []).append(c)
                    labels.add("component-attached-without-scheduler-call")
            pop[i] = (a, mask ^ (1 << ti), tg)
            labels.add("component-toggled")
        elif op["op"] == "query":
            tmpl_idx = [int(t) % 5 for t in op.get("tmpl", [])][:3]
            tmpl = [TYPES[i] if i < 4 else PositionComponent for i in tmpl_idx]
            tag = op.get("tag")
            kw = {} if (tag is None and op.get("omit_tag", True)) else {"tag": tag}
            want = [a for a, mask, t in pop
                    if all((i < 3 and (mask >> i & 1)) or (i == 4 and grid) for i in tmpl_idx) and (tag is None or t == tag)]
            order = [a.id for a, _, _ in pop]

            def env_intact(what):
                if [x.id for x in env] != order or len(env) != len(order):
                    raise Violation("environment-altered", f"{where}: {what} changed the environment: {[x.id for x in env]} vs {order}")
            got = env.get_agents(*tmpl, **kw)
            if not kw and k % 3 == 1:           # the deprecated spellings (no tag parameter) are still entry points
                alias = env.getAgents(*tmpl)
                if not isinstance(alias, list) or [id(x) for x in alias] != [id(x) for x in got]:
                    raise Violation("alias-differs", f"{where}: the deprecated getAgents{tuple(t.__name__ for t in tmpl)} returned "
                                                     f"{[getattr(x, 'id', x) for x in alias] if isinstance(alias, list) else alias!r}, get_agents "
                                                     f"{[getattr(x, 'id', x) for x in got] if isinstance(got, list) else got!r}")
                pick = env.getRandomAgent(*tmpl)
                if (pick is None) != (not got) or (pick is not None and not any(pick is x for x in got)):
                    raise Violation("pick-outside-filter", f"{where}: the deprecated getRandomAgent returned {getattr(pick, 'id', pick)!r}, candidates "
                                                           f"{[getattr(x, 'id', x) for x in got] if isinstance(got, list) else got!r}")
                labels.add("deprecated-aliases")
            desc = f"template {[t.__name__ for t in tmpl]} tag={tag!r}; population {[(a.id, m, t) for a, m, t in pop]}"
            if not isinstance(got, list) or [id(x) for x in got] != [id(x) for x in want]:
                ids = [getattr(x, "id", x) for x in got] if isinstance(got, list) else got
                clause = "filter-extra" if isinstance(got, list) and set(ids) - {a.id for a in want} else "filter-missing-or-order"
                raise Violation(clause, f"{where}: get_agents with {desc} returned {ids}, expected {[a.id for a in want]}")
            if len(got) >= 2:
                got.reverse()                      # length-preserving modification by the caller
                env_intact("reversing the returned list")
                again = env.get_agents(*tmpl, **kw)
                if again is got or [id(x) for x in again] != [id(x) for x in want]:
                    raise Violation("list-not-fresh", f"{where}: after the caller reversed the returned list the same query returned "
                                                      f"{[getattr(x, 'id', x) for x in again]}, expected {[a.id for a in want]}")
                got = again
            got.clear()
            got.extend(["junk"])
            env_intact("mutating the returned list")
            again = env.get_agents(*tmpl, **kw)
            if again is got or [id(x) for x in again] != [id(x) for x in want]:
                raise Violation("list-not-fresh", f"{where}: after the caller modified the returned list the same query returned "
                                                  f"{[getattr(x, 'id', x) for x in again]}")
            # random pick
            cand = {id(a): a for a in want}
            if not cand:
                r = env.get_random_agent(*tmpl, **kw)
                if r is not None:
                    raise Violation("pick-outside-filter", f"{where}: no candidate for {desc} but get_random_agent returned {getattr(r, 'id', r)}")
            else:
                seen = set()
                draws = 60 * len(cand) if len(cand) <= 16 else 25 * len(cand)      # miss probability < 1e-8 either way
                for _ in range(draws):
                    r = env.get_random_agent(*tmpl, **kw)
                    if r is None or id(r) not in cand:
                        raise Violation("pick-outside-filter", f"{where}: {desc}: get_random_agent returned {getattr(r, 'id', r)!r}, "
                                                               f"candidates {[a.id for a in want]}")
                    seen.add(id(r))
                if len(seen) != len(cand):
                    miss = [cand[i].id for i in cand if i not in seen]
                    raise Violation("pick-unreachable", f"{where}: {desc}: {miss} never returned in {draws} draws")
            env_intact("get_random_agent")
            sh = env.shuffle(*tmpl, **kw)
            if not isinstance(sh, list) or sorted(id(x) for x in sh) != sorted(cand) or len(sh) != len(cand):
                raise Violation("shuffle-not-permutation", f"{where}: {desc}: shuffle returned {[getattr(x, 'id', x) for x in sh]}, "
                                                           f"candidates {[a.id for a in want]}")
            env_intact("shuffle")
            if 0 < len(want) < len(pop) and (len(set(tmpl_idx)) >= 2 or tag is not None):
                nontrivial = True
            labels.add(f"tmpl{len(tmpl_idx)}")
            labels.add("tag-none" if tag is None else ("tag-0" if tag == 0 else "tag-other"))
            if not want:
                labels.add("no-candidate")
        elif op["op"] == "use":
            # other services of the environment in between: loops over it that are left early, len, lookups by id
            for _a in env:
                break
            next(iter(env), None)
            any(True for _a in env)
            len(env)
            env.get_agent("g0")
            labels.add("other-services-used")
        else:
            raise InvalidCase(op)
    if CAP > 64:
        labels.add("population>64")
    if env2 is not None:
        got2 = ([a.id for a in env2.get_agents(TYPES[0], tag=7)], [a.id for a in env2.get_agents(TYPES[1], TYPES[2])], env2.get_agents(tag=3))
        if got2 != (["g0", "g1", "g2", "g3"], ["g0", "g1", "g2", "g3"], []):
            raise Violation("other-environment-disturbed", f"a second environment holding g0..g3 (all components, tag 7) answers its queries with {got2}")
    return {"nontrivial": nontrivial, "labels": sorted(labels) + (["grid"] if grid else ["plain"])}


def strategy(tier):
    add = st.fixed_dictionaries({"op": st.just("add"), "mask": st.integers(0, 7), "tag": st.sampled_from([None, 0, 1, 1, 2, 7]),
                                 "akind": st.sampled_from(["agent", "agent", "agent", "agent", "nested-env", "crowd"])})
    rem = st.fixed_dictionaries({"op": st.just("remove"), "k": st.integers(0, 7), "raw": st.booleans(), "rejoin": st.sampled_from([False, False, True])})
    retag = st.fixed_dictionaries({"op": st.just("retag"), "k": st.integers(0, 7), "tag": st.sampled_from([0, 1, 2, 7])})
    toggle = st.fixed_dictionaries({"op": st.just("toggle"), "k": st.integers(0, 140), "t": st.integers(0, 2), "paired": st.booleans()})
    q = st.fixed_dictionaries({"op": st.just("query"), "tmpl": st.lists(st.sampled_from([0, 0, 1, 1, 2, 3, 4]), max_size=3),
                               "tag": st.sampled_from([None, None, 0, 0, 1, 2, 7, 9]), "omit_tag": st.booleans()})
    from vf.fixtures import near_pow2
    crowd = near_pow2(33, 130).flatmap(lambda n: st.fixed_dictionaries({
        "seed": st.integers(0, 50), "grid": st.sampled_from([False, False, True]), "cap": st.just(n + 5),
        # after the crowd has joined: components gained / lost WITHOUT the scheduler call (several agents, so that both
        # directions occur), then queries for exactly those types and for the position component, then a random tail
        "ops": st.builds(lambda first, t, ks, tag, rest: first + [{"op": "toggle", "k": k_, "t": t, "paired": False} for k_ in ks] +
                         [{"op": "query", "tmpl": [t], "tag": None, "omit_tag": True}, {"op": "query", "tmpl": [4], "tag": tag, "omit_tag": tag is None},
                          {"op": "query", "tmpl": [t, 4], "tag": None, "omit_tag": False}] + rest,
                         st.lists(add, min_size=n, max_size=n), st.integers(0, 2), st.lists(st.integers(0, 140), min_size=3, max_size=3),
                         st.sampled_from([None, 1, 7]), sized_lists(wone_of(toggle, toggle, retag, rem, q, q), 2, 6))}))
    small = _small(add, rem, retag, toggle, q)
    return with_done(wone_of(*([small] * 14 + [crowd])))


def _small(add, rem, retag, toggle, q):
    from hypothesis import strategies as st
    return st.fixed_dictionaries({"seed": wone_of(st.integers(0, 50), st.integers(-2 ** 70, 2 ** 70)),
                                  "grid": st.sampled_from([False, False, False, True]),
                                  "ops": st.builds(lambda first, rest: first + rest, sized_lists(add, 0, 6),
                                                   sized_lists(wone_of(add, add, rem, retag, toggle, q, q, q, q, st.just({"op": "use"})), 3, 22))})
