"""Shared fixtures (module level so that they survive fork / pickling)."""
import sys

from ECAgent import Core
from ECAgent.Core import Agent, Component, Model, System
from ECAgent.Collectors import Collector

from vf.engine import Violation

MAXSIZE = sys.maxsize


class RecSystem(System):
    """Appends its own unique token to a shared log every time it runs."""

    def __init__(self, id, model, log, token, **kw):
        super().__init__(id, model, **kw)
        self._log = log
        self._token = token

    def execute(self):
        self._log.append((self.model.systems.timestep, self._token))


# System uses __slots__; subclasses without __slots__ get a __dict__, fine.


class RecCollector(Collector):
    def __init__(self, id, model, log, token, **kw):
        super().__init__(id, model, **kw)
        self._log = log
        self._token = token

    def collect(self):
        self._log.append((self.model.systems.timestep, self._token))


class FalsySystem(RecSystem):
    """A system whose instances are falsy (defines __len__ like the library's own Agent / Environment classes do)."""

    def __len__(self):
        return 0


class CompA(Component):
    pass


class CompB(Component):
    pass


class CompC(Component):
    pass


class CompD(Component):
    pass


class CompF(Component):
    """A component whose instances are FALSY (like an empty inventory that defines __len__): legal, and ECAgent's own Agent
    is falsy too when it has no components, so truthiness tests where identity/None tests are meant must show."""

    def __len__(self):
        return 0


COMPS = [CompA, CompB, CompC]


def expect_raises(clause, exc_types, fn, *a, **kw):
    """fn must raise one of exc_types (exact documented classes or subclasses)."""
    try:
        fn(*a, **kw)
    except exc_types as e:
        return e
    except Exception as e:
        raise Violation(clause, f"expected {_names(exc_types)}, got {type(e).__name__}: {e}")
    raise Violation(clause, f"expected {_names(exc_types)}, nothing was raised")


def _names(t):
    if isinstance(t, tuple):
        return "/".join(x.__name__ for x in t)
    return t.__name__


def check(cond, clause, msg=""):
    if not cond:
        raise Violation(clause, msg() if callable(msg) else msg)


def sized_lists(elements, lo, hi):
    """Lists whose length is drawn uniformly from lo..hi first (Hypothesis' own lists() average only ~min_size+5
    elements whatever max_size is, which leaves long histories untested)."""
    from hypothesis import strategies as st
    return st.integers(lo, hi).flatmap(lambda n: st.lists(elements, min_size=n, max_size=n))


def wone_of(*strategies):
    """one_of with weights given by repetition: wone_of(a, a, a, b) draws a three times as often as b.
    (hypothesis.strategies.one_of silently de-duplicates repeated strategy objects, so repetition alone gives no weight.)"""
    from hypothesis import strategies as st
    uniq, index = [], []
    for s in strategies:
        for i, u in enumerate(uniq):
            if u is s:
                index.append(i)
                break
        else:
            uniq.append(s)
            index.append(len(uniq) - 1)
    if len(uniq) == len(strategies):
        return st.one_of(*strategies)
    return st.sampled_from(index).flatmap(lambda i: uniq[i])


def near_pow2(lo=15, hi=130):
    """sizes around the thresholds a performance optimisation would pick (powers of two and round numbers, +-1)"""
    from hypothesis import strategies as st
    vals = [v for v in (8, 9, 15, 16, 17, 18, 31, 32, 33, 34, 40, 50, 63, 64, 65, 66, 70, 96, 100, 127, 128, 129, 130, 200, 256, 257)
            if lo <= v <= hi]
    return st.sampled_from(vals)


def with_done(strategy):
    """adds the generator dimension 'the model is marked complete (Model.complete()) before operation number <done>': a completed
    model no longer steps (and is falsy), but its environment, worlds, queries and class machinery stay in use while results are
    collected. A quarter of the cases."""
    from hypothesis import strategies as st
    return st.tuples(strategy, st.sampled_from([None, None, None, None, None, None, 0, 0, 1, 3, 9])).map(
        lambda t: t[0] if t[1] is None else dict(t[0], done=t[1]))


def maybe_complete(case, k, model, labels):
    """to be called at the head of operation k"""
    d = case.get("done")
    if d is not None and k == int(d) and model.is_running():
        model.complete()
        labels.add("model-completed-then-used")
