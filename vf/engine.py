"""Generic driver: corpus replay, exhaustive enumeration, sharded Hypothesis search,
collect-then-shrink, structural minimisation, evidence writer.

A property module (vf/props/cNN.py) exposes

    PROPERTY   : "CNN"
    RULE       : text for evidence.coverage.rule
    BUDGET     : {"quick": n_random_cases, "thorough": n_random_cases_per_shard}
    strategy(tier)            -> hypothesis strategy producing JSON-serialisable cases
    run_case(case)            -> info dict {"nontrivial": bool, "labels": [...], "excluded": int}
                                 raises Violation(clause, message) when the property is broken
    exhaustive(tier)          -> optional iterable of cases (a finite box enumerated completely)
    configure(live_findings)  -> optional; told which `open:` findings are live
    ASSUMPTIONS               -> optional list of strings
"""
import hashlib
import importlib
import itertools
import json
import os
import signal
import sys
import threading
import time
import traceback
import warnings
from concurrent.futures import ProcessPoolExecutor
import multiprocessing as mp

ROOT = os.path.dirname(os.path.dirname(os.path.abspath(__file__)))
OUT = os.environ.get("VERIF_OUT") or ROOT      # evidence/ and replays/ are written here (the mutant audit redirects it)


class Violation(Exception):
    """The property does not hold for this case."""

    def __init__(self, clause, message=""):
        self.clause = str(clause)
        self.message = str(message)
        super().__init__(f"{clause}: {message}")


class CaseTimeout(BaseException):
    """A single case ran for more than CASE_TIMEOUT_S seconds (normal cases take milliseconds): the code under test hangs."""


CASE_TIMEOUT_S = int(os.environ.get("VERIF_CASE_TIMEOUT_S", "60"))


def _on_alarm(signum, frame):
    raise CaseTimeout()


warnings.simplefilter("ignore", DeprecationWarning)      # the deprecated camelCase aliases are exercised on purpose


class InvalidCase(Exception):
    """The case is not in the input domain (only raised for hand-edited / minimised cases)."""


FATAL = (MemoryError, RecursionError, KeyboardInterrupt, SystemExit, InvalidCase)


def signature_of(exc):
    """Stable root-cause bucket for a failure."""
    if isinstance(exc, Violation):
        return _san(exc.clause)
    tb = traceback.extract_tb(exc.__traceback__)
    where = "unknown"
    repo = os.environ.get("VERIF_REPO", "/repo")
    for fr in reversed(tb):
        if fr.filename.startswith(repo):
            where = f"{os.path.basename(fr.filename)[:-3]}.{fr.name}"
            break
    return _san(f"crash-{type(exc).__name__}-{where}")


def _san(s):
    return "".join(ch if ch.isalnum() or ch in "-_." else "_" for ch in s)[:80]


def canon(case):
    return json.dumps(case, sort_keys=True, separators=(",", ":"), default=str)


def digest(case):
    return hashlib.blake2b(canon(case).encode(), digest_size=8).digest()


def derive_seed(seed, prop, shard, rnd):
    h = hashlib.sha256(f"{seed}:{prop}:{shard}:{rnd}".encode()).hexdigest()
    return int(h[:15], 16)


def load_prop(pid):
    return importlib.import_module(f"vf.props.{pid.lower()}")


# ----------------------------------------------------------------------------------------------
# executing one case


def execute(mod, case):
    """Returns (info, None) or (None, (sig, message)). Anything escaping run_case other than a
    FATAL error is a violation: on the unchanged tree run_case never raises (checked at many
    seeds), so an exception here is the code under test misbehaving.

    A case that exceeds CASE_TIMEOUT_S is retried (twice): a deterministic non-termination hangs every time, whereas a
    rare deadlock inside multiprocessing (fork while pool handler threads are alive) does not repeat - only the former is
    reported, as signature 'hang'."""
    outcome = None
    for attempt in range(3):
        outcome = _execute_once(mod, case)
        if outcome[1] is None or outcome[1][0] != "hang":
            return outcome
        _reap_children()
    return outcome


def _reap_children():
    try:
        for ch in mp.active_children():
            ch.terminate()
        for ch in mp.active_children():
            ch.join(timeout=2)
    except Exception:
        pass


def quiesce(max_wait=1.0):
    """Wait until helper threads of a finished multiprocessing.Pool are gone, so that the next fork happens from a
    single-threaded process (used by the properties that drive Pool-based code)."""
    global _thread_baseline
    end = time.time() + max_wait
    while threading.active_count() > _thread_baseline and time.time() < end:
        time.sleep(0.002)
    if threading.active_count() > _thread_baseline:      # stuck helper threads of an abandoned pool: stop waiting for them
        _thread_baseline = threading.active_count()


_thread_baseline = 1


def _execute_once(mod, case):
    armed = False
    limit = int(getattr(mod, "CASE_TIMEOUT_S", CASE_TIMEOUT_S))
    try:
        if threading.current_thread() is threading.main_thread():
            signal.signal(signal.SIGALRM, _on_alarm)
            signal.alarm(limit)
            armed = True
        info = mod.run_case(case) or {}
        return info, None
    except FATAL:
        raise
    except CaseTimeout:
        return None, ("hang", f"the case did not finish within {limit}s in 3 attempts (normal cases take milliseconds): the "
                              f"code under test does not terminate")
    except Violation as v:
        return None, (signature_of(v), v.message)
    except BaseException as e:  # noqa
        msg = f"{type(e).__name__}: {e}"
        tb = traceback.extract_tb(e.__traceback__)
        if tb:
            fr = tb[-1]
            msg += f"  [{os.path.basename(fr.filename)}:{fr.lineno} {fr.name}]"
        return None, (signature_of(e), msg)
    finally:
        if armed:
            signal.alarm(0)


class Stats:
    def __init__(self):
        self.evaluations = 0
        self.nontrivial = set()
        self.labels = {}
        self.excluded = 0
        self.samples = []
        self.nt_samples = []

    def record(self, case, info):
        self.evaluations += 1
        for lab in info.get("labels", ()):
            self.labels[lab] = self.labels.get(lab, 0) + 1
        self.excluded += int(info.get("excluded", 0))
        if info.get("nontrivial"):
            self.nontrivial.add(digest(case))
            if len(self.nt_samples) < 2:
                self.nt_samples.append(case)
        elif len(self.samples) < 2:
            self.samples.append(case)

    def dump(self):
        return {"evaluations": self.evaluations, "nontrivial": list(self.nontrivial), "labels": self.labels,
                "excluded": self.excluded, "samples": self.samples, "nt_samples": self.nt_samples}

    def merge(self, d):
        self.evaluations += d["evaluations"]
        self.nontrivial.update(d["nontrivial"])
        for k, v in d["labels"].items():
            self.labels[k] = self.labels.get(k, 0) + v
        self.excluded += d["excluded"]
        for s in d["samples"]:
            if len(self.samples) < 2:
                self.samples.append(s)
        for s in d["nt_samples"]:
            if len(self.nt_samples) < 3:
                self.nt_samples.append(s)


# ----------------------------------------------------------------------------------------------
# structural minimisation (ddmin over every list, integers towards 0)


def _paths(obj, prefix=()):
    if isinstance(obj, list):
        yield prefix, "list"
        for i, v in enumerate(obj):
            yield from _paths(v, prefix + (i,))
    elif isinstance(obj, dict):
        for k in sorted(obj):
            yield from _paths(obj[k], prefix + (k,))
    elif isinstance(obj, bool):
        return
    elif isinstance(obj, int):
        yield prefix, "int"


def _get(obj, path):
    for p in path:
        obj = obj[p]
    return obj


def _set(obj, path, val):
    obj = json.loads(json.dumps(obj))
    if not path:
        return val
    cur = obj
    for p in path[:-1]:
        cur = cur[p]
    cur[path[-1]] = val
    return obj


def minimise(mod, case, sig, max_runs=3000, deadline=None, time_cap=25.0):
    """Greedy structural shrink keeping the same violation signature (at most `time_cap` seconds)."""
    runs = 0
    cap = time.time() + time_cap
    deadline = cap if deadline is None else min(deadline, cap)
    if sig == "hang":          # every probe would cost a full timeout
        return case

    def fails(c):
        nonlocal runs
        if time.time() > deadline or runs >= max_runs:
            return False
        runs += 1
        try:
            _, bad = execute(mod, c)
        except InvalidCase:
            return False
        return bad is not None and bad[0] == sig

    try:
        case = json.loads(json.dumps(case))
    except TypeError:
        return case
    if len(canon(case)) > 20000:          # very large cases: every probe is expensive, settle for a coarse reduction
        max_runs = min(max_runs, 400)
    improved = True
    while improved and runs < max_runs and (deadline is None or time.time() < deadline):
        improved = False
        for path, kind in list(_paths(case)):
            try:
                cur = _get(case, path)
            except (KeyError, IndexError, TypeError):
                continue
            if kind == "list" and isinstance(cur, list):
                n = len(cur)
                chunk = max(n // 2, 1)
                while chunk >= 1 and n > 0:
                    i = 0
                    while i < len(cur):
                        cand_list = cur[:i] + cur[i + chunk:]
                        cand = _set(case, path, cand_list)
                        if runs < max_runs and fails(cand):
                            case, cur, improved = cand, cand_list, True
                        else:
                            i += chunk
                    if chunk == 1:
                        break
                    chunk //= 2
            elif kind == "int" and isinstance(cur, int) and not isinstance(cur, bool) and cur != 0:
                for v in (0, cur // 2, cur - 1 if cur > 0 else cur + 1):
                    if v == cur or abs(v) > abs(cur):
                        continue
                    cand = _set(case, path, v)
                    if runs < max_runs and fails(cand):
                        case, improved = cand, True
                        break
    return case


# ----------------------------------------------------------------------------------------------
# shards


def _init_child(pid, live):
    mod = load_prop(pid)
    if hasattr(mod, "configure"):
        mod.configure(set(live))
    return mod


def _exhaustive_chunk(args):
    pid, live, tier, lo, hi, known_sigs, deadline = args
    mod = _init_child(pid, live)
    st = Stats()
    failures = {}
    for case in itertools.islice(mod.exhaustive(tier), lo, hi):
        if time.time() > deadline:
            return st.dump(), failures, True
        info, bad = execute(mod, case)
        if bad:
            st.evaluations += 1
            if bad[0] not in failures:
                failures[bad[0]] = (case, bad[1])
        else:
            st.record(case, info)
    return st.dump(), failures, False


def _random_shard(args):
    pid, live, tier, seed, shard, n_examples, skip_sigs, deadline, do_shrink = args
    import hypothesis
    from hypothesis import HealthCheck, Phase, given, settings

    mod = _init_child(pid, live)
    st = Stats()
    failures = {}
    skip = set(skip_sigs)
    budget_hit = False
    for rnd in range(5):
        state = {"last": None, "sig": None, "msg": None}

        def body(case):
            nonlocal budget_hit
            if time.time() > deadline:
                budget_hit = True
                return
            if "hang" in skip:      # a hang was already reported by this shard: every further one would cost a full timeout
                return
            if state["sig"] == "hang":      # hypothesis replaying / shrinking the hanging example: do not wait again
                raise Violation("hang", state["msg"])
            info, bad = execute(mod, case)
            if bad:
                if bad[0] in skip:
                    st.evaluations += 1
                    return
                if state["sig"] is None or state["sig"] == bad[0]:
                    state.update(last=case, sig=bad[0], msg=bad[1])
                    raise Violation(bad[0], bad[1])
                return  # a different failure while shrinking: handled in a later round
            if state["sig"] is None:
                st.record(case, info)

        phases = [Phase.generate] + ([Phase.shrink] if do_shrink else [])
        test = hypothesis.seed(derive_seed(seed, pid, shard, rnd))(
            settings(max_examples=n_examples, database=None, deadline=None, derandomize=False,
                     report_multiple_bugs=False, phases=phases, print_blob=False,
                     suppress_health_check=list(HealthCheck))(given(mod.strategy(tier))(body)))
        try:
            test()
        except FATAL:
            raise
        except Violation:
            pass
        except BaseException as e:  # hypothesis wrapper errors (Flaky etc.)
            if state["sig"] is None:
                raise
        if state["sig"] is None or budget_hit or "hang" in skip:
            break
        small = minimise(mod, state["last"], state["sig"], deadline=deadline + 60)
        failures[state["sig"]] = (small, state["msg"])
        skip.add(state["sig"])
    return st.dump(), failures, budget_hit


# ----------------------------------------------------------------------------------------------
# top level


def run_property(pid, tier, seed, jobs, budget_s, out=print):
    from vf import findings as fnd

    t0 = time.time()
    deadline = t0 + budget_s
    mod = load_prop(pid)
    try:                                  # the evidence file always describes THIS run
        os.remove(os.path.join(OUT, "evidence", f"{pid}.json"))
    except OSError:
        pass
    stats = Stats()
    failures = {}        # sig -> (case, msg)
    known_lines = []

    # 1. known findings: liveness replays
    opens = fnd.open_findings(pid)
    live = set()
    known_sigs = set()
    for f in opens:
        case = fnd.load_case(f["replay"])
        if hasattr(mod, "configure"):
            mod.configure(set())          # replay with nothing masked
        _, bad = execute(mod, case)
        if bad is not None and bad[0] == f["signature"]:
            live.add(f["id"])
            known_sigs.add(f["signature"])
            known_lines.append(f"KNOWN-FINDING: property={pid} {f['text']}")
    if hasattr(mod, "configure"):
        mod.configure(set(live))

    # 2. corpus replays (regressions, mutant killers); finding replays are skipped while live
    corpus_dir = os.path.join(ROOT, "corpus", pid)
    corpus_run = 0
    finding_files = {os.path.basename(f["replay"]) for f in opens if f["id"] in live}
    if os.path.isdir(corpus_dir):
        for name in sorted(os.listdir(corpus_dir)):
            if not name.endswith(".json") or name in finding_files:
                continue
            case = fnd.load_case(os.path.join("corpus", pid, name))
            info, bad = execute(mod, case)
            corpus_run += 1
            if bad:
                stats.evaluations += 1
                if bad[0] not in failures:
                    failures[bad[0]] = (case, bad[1])
            else:
                stats.record(case, info)

    budget_hit = False
    ctx = mp.get_context("fork")
    exhaustive_n = 0
    # 3. exhaustive box
    if hasattr(mod, "exhaustive"):
        total = mod.exhaustive_size(tier) if hasattr(mod, "exhaustive_size") else sum(1 for _ in mod.exhaustive(tier))
        exhaustive_n = total
        nchunks = max(1, min(jobs * 4, total // 50 or 1))
        step = -(-total // nchunks)
        tasks = [(pid, sorted(live), tier, i, min(i + step, total), sorted(known_sigs), deadline)
                 for i in range(0, total, step)]
        if jobs == 1 or len(tasks) == 1:
            results = [_exhaustive_chunk(t) for t in tasks]
        else:
            with ProcessPoolExecutor(max_workers=jobs, mp_context=ctx) as ex:
                results = list(ex.map(_exhaustive_chunk, tasks))
        for d, fails, hit in results:
            stats.merge(d)
            budget_hit |= hit
            for s, v in fails.items():
                failures.setdefault(s, v)

    # 4. random part
    n_total = mod.BUDGET[tier]
    shards = jobs
    per = max(1, n_total // shards) if tier == "quick" else n_total
    do_shrink = tier == "thorough"
    tasks = [(pid, sorted(live), tier, seed, sh, per, sorted(set(failures)), deadline, do_shrink)
             for sh in range(shards)]
    if n_total > 0:
        if shards == 1:
            results = [_random_shard(tasks[0])]
        else:
            with ProcessPoolExecutor(max_workers=shards, mp_context=ctx) as ex:
                results = list(ex.map(_random_shard, tasks))
        for d, fails, hit in results:
            stats.merge(d)
            budget_hit |= hit
            for s, v in fails.items():
                if s not in failures or len(canon(v[0])) < len(canon(failures[s][0])):
                    failures[s] = v

    # 5. every failure found here is new: the trigger classes of live known findings were excluded from
    #    generation by construction (or masked case by case inside the oracle), so whatever still fails is a
    #    different violation even when its signature coincides with a known finding's
    new = dict(failures)

    viol_lines = []

    def write_outputs(final):
        """replay files and the evidence file; written once before minimisation (so that a stall while minimising loses
        nothing) and once more at the end"""
        nonlocal viol_lines
        os.makedirs(os.path.join(OUT, "replays"), exist_ok=True)
        viol_lines = []
        for s, (case, msg) in sorted(new.items()):
            rel = os.path.join("replays", f"{pid}-{s}.json")
            with open(os.path.join(OUT, rel), "w") as fh:
                json.dump({"property": pid, "signature": s, "message": msg, "case": case}, fh, indent=1, default=str)
            viol_lines.append(f"VIOLATION property={pid} replay={rel}")
            if final:
                out(f"  [{s}] {msg[:300]}")

        wall = time.time() - t0
        samples = (stats.nt_samples + stats.samples)[:4]
        evidence = {
            "property_id": pid, "tier": tier, "seed": int(seed), "level": getattr(mod, "LEVEL", "exploration"),
            "coverage": {
                "evaluations": stats.evaluations,
                "distinct_nontrivial": len(stats.nontrivial),
                "rule": mod.RULE,
                "samples": samples,
                "labels": dict(sorted(stats.labels.items())),
                "exhaustive": bool(exhaustive_n) and not budget_hit,
                "exhaustive_cases": exhaustive_n,
                "exhaustive_domain": getattr(mod, "EXHAUSTIVE_DOMAIN", None),
                "random_cases_requested": (per * shards) if n_total > 0 else 0,
                "shards": shards,
                "corpus_replays": corpus_run,
                "live_known_findings": sorted(live),
                "excluded_by_known_finding": stats.excluded,
                "budget_hit": budget_hit,
                "violation_signatures": sorted(new),
                "failing_cases_minimised": bool(final),
                "repo": os.environ.get("VERIF_REPO", "/repo"),
            },
            "assumptions": list(getattr(mod, "ASSUMPTIONS", [])),
            "wall_s": round(wall, 2),
            "violations": len(new),
        }
        if not evidence["coverage"]["exhaustive"]:
            evidence["coverage"]["exhaustive"] = False
        os.makedirs(os.path.join(OUT, "evidence"), exist_ok=True)
        with open(os.path.join(OUT, "evidence", f"{pid}.json"), "w") as fh:
            json.dump(evidence, fh, indent=1, default=str)


    viol_lines = []
    write_outputs(final=False)
    if os.environ.get("VF_TEST_STALL") == "1":          # self-test of the supervisor in vf/cli.py: pretend to stop responding here
        time.sleep(10 ** 6)
    # minimise corpus / exhaustive failures too
    for s in list(new):
        case, msg = new[s]
        try:
            small = minimise(mod, case, s, max_runs=1500, deadline=time.time() + 60)
            _, bad = execute(mod, small)
            new[s] = (small, bad[1] if bad and bad[0] == s else msg)
        except FATAL:
            pass

    write_outputs(final=True)
    wall = time.time() - t0
    for line in known_lines:
        out(line)
    for line in viol_lines:
        out(line)
    out(f"{pid} {tier}: {stats.evaluations} cases, {len(stats.nontrivial)} distinct non-trivial, "
        f"{len(new)} violation(s), {len(live)} live known finding(s), {wall:.1f}s"
        + (" [time budget hit: remaining cases skipped]" if budget_hit else ""))
    if stats.evaluations == 0:
        out("harness error: nothing was evaluated")
        return 2
    return 1 if new else 0


def replay(pid, path, out=print):
    from vf import findings as fnd
    mod = load_prop(pid)
    live = set()
    for f in fnd.open_findings(pid):
        if hasattr(mod, "configure"):
            mod.configure(set())
        _, bad = execute(mod, fnd.load_case(f["replay"]))
        if bad is not None and bad[0] == f["signature"]:
            live.add(f["id"])
    if hasattr(mod, "configure"):
        mod.configure(live if not os.environ.get("VERIF_REPLAY_UNMASKED") else set())
    case = fnd.load_case(path)
    info, bad = execute(mod, case)
    if bad:
        out(f"  [{bad[0]}] {bad[1]}")
        out(f"VIOLATION property={pid} replay={path}")
        return 1
    out(f"{pid} replay {path}: holds ({info})")
    return 0
