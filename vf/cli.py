"""./check CNN [--tier quick|thorough] [--replay file] [--jobs n]

exit 0: property held on everything explored (KNOWN-FINDING lines possible)
exit 1: at least one unlisted violation (VIOLATION property=CNN replay=<path> per root cause)
exit 2: harness error (import failure, nothing evaluated)
"""
import argparse
import json
import os
import signal
import subprocess
import sys
import threading
import time
import traceback

ROOT = os.path.dirname(os.path.dirname(os.path.abspath(__file__)))


def supervise(cmd, env, args):
    """Run the check proper in a child process (own session) and pass its output through. The child bounds every case and
    the whole run by itself; the supervisor is the last line of defence against a run that stops responding altogether
    (observed once: a deadlock inside multiprocessing while a defective tree was being examined). After budget + grace seconds
    the child's process group is killed and the results it had recorded up to then are reported: violations found before
    the stall still count (exit 1), otherwise the run is inconclusive like any other budget hit (exit 0)."""
    budget = args.budget or float(os.environ.get("VERIF_BUDGET_S", "0")) or (240 if args.tier == "quick" else 3000)
    limit = budget + float(os.environ.get("VERIF_SUPERVISOR_GRACE_S", 150 if args.tier == "quick" else 400))
    child = subprocess.Popen(cmd, env=env, stdout=subprocess.PIPE, stderr=None, text=True, start_new_session=True)

    def stop(*_):
        try:
            os.killpg(child.pid, signal.SIGKILL)
        except OSError:
            pass
    for sig in (signal.SIGTERM, signal.SIGINT, signal.SIGHUP):
        signal.signal(sig, lambda *_: (stop(), os._exit(130)))
    seen = []

    def pump():
        for line in child.stdout:
            seen.append(line)
            sys.stdout.write(line)
            sys.stdout.flush()
    t = threading.Thread(target=pump, daemon=True)
    t.start()
    t0 = time.time()
    try:
        rc = child.wait(timeout=limit)
        t.join(timeout=10)
        return rc
    except subprocess.TimeoutExpired:
        stop()
        child.wait()
        t.join(timeout=5)
    pid = args.property.upper()
    out_root = os.environ.get("VERIF_OUT") or ROOT
    ev_path = os.path.join(out_root, "evidence", f"{pid}.json")
    print(f"supervisor: the check process stopped responding and was killed after {time.time() - t0:.0f}s; reporting what it had recorded")
    if args.replay or not os.path.exists(ev_path):
        print("harness error: nothing was recorded before the stall")
        return 2
    with open(ev_path) as fh:
        ev = json.load(fh)
    ev["coverage"]["budget_hit"] = True
    ev["coverage"]["killed_by_supervisor_after_s"] = round(time.time() - t0, 1)
    with open(ev_path, "w") as fh:
        json.dump(ev, fh, indent=1)
    sigs = ev["coverage"].get("violation_signatures", [])
    already = "".join(seen)
    for s_ in sigs:
        line = f"VIOLATION property={pid} replay=" + os.path.join("replays", f"{pid}-{s_}.json")
        if line not in already:
            print(line)
    print(f"{pid} {args.tier}: {ev['coverage'].get('evaluations', 0)} cases, {len(sigs)} violation(s) [run cut short by the supervisor]")
    return 1 if sigs else 0


def main(argv=None):
    ap = argparse.ArgumentParser()
    ap.add_argument("property")
    ap.add_argument("--tier", default=os.environ.get("VERIF_TIER", "quick"), choices=["quick", "thorough"])
    ap.add_argument("--replay")
    ap.add_argument("--jobs", type=int, default=None)
    ap.add_argument("--budget", type=float, default=None, help="overall wall-clock budget in seconds")
    args = ap.parse_args(argv)

    repo = os.path.abspath(os.environ.get("VERIF_REPO", "/repo"))
    if os.environ.get("VF_SUPERVISED") != "1":
        env = dict(os.environ, PYTHONHASHSEED="0", VERIF_REPO=repo, PYTHONDONTWRITEBYTECODE="1",
                   ECAGENT_VERIF="1", VF_SUPERVISED="1")
        env["PYTHONPATH"] = os.pathsep.join([repo, ROOT] + [p for p in env.get("PYTHONPATH", "").split(os.pathsep) if p])
        return supervise([sys.executable, "-m", "vf.cli"] + (argv if argv is not None else sys.argv[1:]), env, args)

    os.chdir(ROOT)
    sys.path[:0] = [repo, ROOT]
    try:
        import ECAgent
        import ECAgent.Core  # noqa
        here = os.path.realpath(os.path.dirname(ECAgent.__file__))
        if not here.startswith(os.path.realpath(repo) + os.sep):
            print(f"harness error: ECAgent imported from {here}, expected under {repo}")
            return 2
        import hypothesis  # noqa
        from vf import engine
    except Exception:
        traceback.print_exc()
        print("harness error: cannot import the code under test or the tooling")
        return 2

    pid = args.property.upper()
    try:
        seed = int(os.environ.get("VERIF_SEED", "1"))
    except ValueError:
        seed = 1
    jobs = args.jobs or int(os.environ.get("VERIF_JOBS", "0")) or (4 if args.tier == "quick" else 16)
    jobs = max(1, min(jobs, os.cpu_count() or 1))
    budget = args.budget or float(os.environ.get("VERIF_BUDGET_S", "0")) or (240 if args.tier == "quick" else 3000)
    try:
        if args.replay:
            return engine.replay(pid, args.replay)
        return engine.run_property(pid, args.tier, seed, jobs, budget)
    except Exception:
        traceback.print_exc()
        print("harness error")
        return 2


if __name__ == "__main__":
    sys.exit(main())
