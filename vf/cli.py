"""./check CNN [--tier quick|thorough] [--replay file] [--jobs n]

exit 0: property held on everything explored (KNOWN-FINDING lines possible)
exit 1: at least one unlisted violation (VIOLATION property=CNN replay=<path> per root cause)
exit 2: harness error (import failure, nothing evaluated)
"""
import argparse
import os
import sys
import traceback

ROOT = os.path.dirname(os.path.dirname(os.path.abspath(__file__)))


def main(argv=None):
    ap = argparse.ArgumentParser()
    ap.add_argument("property")
    ap.add_argument("--tier", default=os.environ.get("VERIF_TIER", "quick"), choices=["quick", "thorough"])
    ap.add_argument("--replay")
    ap.add_argument("--jobs", type=int, default=None)
    ap.add_argument("--budget", type=float, default=None, help="overall wall-clock budget in seconds")
    args = ap.parse_args(argv)

    repo = os.path.abspath(os.environ.get("VERIF_REPO", "/repo"))
    if os.environ.get("PYTHONHASHSEED") != "0" or os.environ.get("VERIF_REPO") != repo \
            or os.environ.get("PYTHONDONTWRITEBYTECODE") != "1":
        env = dict(os.environ, PYTHONHASHSEED="0", VERIF_REPO=repo, PYTHONDONTWRITEBYTECODE="1",
                   ECAGENT_VERIF="1")
        env["PYTHONPATH"] = os.pathsep.join([repo, ROOT] + [p for p in env.get("PYTHONPATH", "").split(os.pathsep) if p])
        os.execve(sys.executable, [sys.executable, "-m", "vf.cli"] + (argv if argv is not None else sys.argv[1:]), env)

    os.chdir(ROOT)
    sys.path[:0] = [repo, ROOT]
    try:
        import ECAgent
        import ECAgent.Core  # noqa
        here = os.path.realpath(os.path.dirname(ECAgent.__file__))
        if not here.startswith(os.path.realpath(repo) + os.sep):
            print(f"harness error: ECAgent imported from {here}, expected under {repo}")
            return 2
        import hypothesis  # noqa
        from vf import engine
    except Exception:
        traceback.print_exc()
        print("harness error: cannot import the code under test or the tooling")
        return 2

    pid = args.property.upper()
    try:
        seed = int(os.environ.get("VERIF_SEED", "1"))
    except ValueError:
        seed = 1
    jobs = args.jobs or int(os.environ.get("VERIF_JOBS", "0")) or (4 if args.tier == "quick" else 16)
    jobs = max(1, min(jobs, os.cpu_count() or 1))
    budget = args.budget or float(os.environ.get("VERIF_BUDGET_S", "0")) or (240 if args.tier == "quick" else 3000)
    try:
        if args.replay:
            return engine.replay(pid, args.replay)
        return engine.run_property(pid, args.tier, seed, jobs, budget)
    except Exception:
        traceback.print_exc()
        print("harness error")
        return 2


if __name__ == "__main__":
    sys.exit(main())
