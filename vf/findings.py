"""KNOWN_FINDINGS.txt: read-only at run time.

open:  property=C03 id=F1 signature=<sig> replay=corpus/C03/F1.json <what fails>
fixed: property=C09 <commit> <what failed>
"""
import json
import os

ROOT = os.path.dirname(os.path.dirname(os.path.abspath(__file__)))
PATH = os.path.join(ROOT, "KNOWN_FINDINGS.txt")


def _parse():
    entries = []
    if not os.path.exists(PATH):
        return entries
    with open(PATH) as fh:
        for raw in fh:
            line = raw.strip()
            if not line or line.startswith("#"):
                continue
            kind, _, rest = line.partition(":")
            kind = kind.strip()
            toks = rest.split()
            e = {"kind": kind}
            text = []
            for t in toks:
                k, eq, v = t.partition("=")
                if eq and k in ("property", "id", "signature", "replay") and k not in e and not text:
                    e[k] = v
                else:
                    text.append(t)
            e["text"] = " ".join(text)
            entries.append(e)
    return entries


def open_findings(pid):
    return [e for e in _parse() if e["kind"] == "open" and e.get("property") == pid
            and "signature" in e and "replay" in e and "id" in e]


def load_case(path):
    if not os.path.isabs(path):
        path = os.path.join(ROOT, path)
    with open(path) as fh:
        data = json.load(fh)
    if isinstance(data, dict) and "case" in data and "property" in data:
        return data["case"]
    return data
