"""Fresh interpreter (its PYTHONHASHSEED is chosen by the parent): digests of a batch of configurations."""
import json
import os
import sys


def main():
    repo = os.environ.get("VERIF_REPO", "/repo")
    sys.path[:0] = [repo]
    configs = json.loads(sys.stdin.read())
    from vf.props import c07
    print(json.dumps(c07.digests_for(configs)))


if __name__ == "__main__":
    main()
