"""Fresh interpreter: one history against the real module-level (global) tag library."""
import json
import os
import sys


def main():
    repo = os.environ.get("VERIF_REPO", "/repo")
    sys.path[:0] = [repo]
    case = json.loads(sys.stdin.read())
    from vf.engine import Violation, InvalidCase
    from vf.props import c19
    import ECAgent.Tags as Tags
    if not os.path.realpath(Tags.__file__).startswith(os.path.realpath(repo) + os.sep):
        print(json.dumps({"invalid": f"Tags imported from {Tags.__file__}"}))
        return
    try:
        info = c19.interpret(case, global_mod=Tags)
        print(json.dumps({"ok": info}))
    except Violation as v:
        print(json.dumps({"violation": [v.clause, v.message]}))
    except InvalidCase as e:
        print(json.dumps({"invalid": str(e)}))
    except Exception as e:
        print(json.dumps({"violation": [f"crash-{type(e).__name__}", f"{type(e).__name__}: {e}"]}))


if __name__ == "__main__":
    main()
